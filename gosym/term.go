package main

// SMT terms: booleans and fixed-width bit-vectors, with constant folding, a
// concrete evaluator (for concolic branch selection and model read-back) and
// an SMT-LIB2 printer with sharing.

import (
	"fmt"
	"strings"
	"sync"
	"sync/atomic"
)

type Op uint8

const (
	opConst Op = iota
	opVar
	opNot
	opAnd
	opOr
	opEq
	opUlt
	opUle
	opSlt
	opSle
	opIte
	opAdd
	opSub
	opMul
	opUdiv
	opUrem
	opSdiv
	opSrem
	opBvand
	opBvor
	opBvxor
	opShl
	opLshr
	opAshr
	opBvnot
	opNeg
	opZext
	opSext
	opExtract // args[0], hi=aux>>8, lo=aux&255
	opTbl     // table function application, name in name
)

var opNames = map[Op]string{
	opNot: "not", opAnd: "and", opOr: "or", opEq: "=", opUlt: "bvult", opUle: "bvule", opSlt: "bvslt", opSle: "bvsle",
	opIte: "ite", opAdd: "bvadd", opSub: "bvsub", opMul: "bvmul", opUdiv: "bvudiv", opUrem: "bvurem", opSdiv: "bvsdiv",
	opSrem: "bvsrem", opBvand: "bvand", opBvor: "bvor", opBvxor: "bvxor", opShl: "bvshl", opLshr: "bvlshr", opAshr: "bvashr",
	opBvnot: "bvnot", opNeg: "bvneg",
}

// Term is a bool (w==0) or bit-vector (w in 1..64) term.
type Term struct {
	op   Op
	w    int
	c    uint64 // constant value (opConst)
	aux  int    // extract hi/lo, ext width
	name string // variable / table name
	args []*Term
	id   int64
	tbl  *Table
	h1   uint64 // structural hash (two independent 64-bit mixes): equality of terms is decided on
	h2   uint64 // these, never on pointer identity, so that it does not depend on the interning table
}

// Table is a constant lookup table exposed to the solver as a defined function.
type Table struct {
	name string
	iw   int // index width
	ow   int // output width
	vals []uint64
}

var termCounter int64

func mix(h uint64, x uint64, k uint64) uint64 {
	h ^= x + k + (h << 6) + (h >> 2)
	h *= 0x9e3779b97f4a7c15
	h ^= h >> 29
	return h
}

func (t *Term) setHash() {
	h1, h2 := uint64(t.op)+1, uint64(t.op)*31+7
	h1 = mix(h1, uint64(t.w), 0x51)
	h2 = mix(h2, uint64(t.w), 0xa7)
	h1 = mix(h1, uint64(t.aux), 0x11)
	h2 = mix(h2, uint64(t.aux), 0x13)
	h1 = mix(h1, t.c, 0x17)
	h2 = mix(h2, t.c, 0x19)
	for i := 0; i < len(t.name); i++ {
		h1 = mix(h1, uint64(t.name[i]), 0x21)
		h2 = mix(h2, uint64(t.name[i]), 0x23)
	}
	for _, a := range t.args {
		h1 = mix(h1, a.h1, 0x31)
		h2 = mix(h2, a.h2, 0x33)
	}
	t.h1, t.h2 = h1, h2
}

// same reports structural equality of two terms.
func same(a, b *Term) bool {
	return a == b || (a.h1 == b.h1 && a.h2 == b.h2 && a.op == b.op && a.w == b.w)
}

type internKey struct {
	op         Op
	w, aux     int
	a0, a1, a2 *Term
	name       string
	tbl        *Table
}

const internShards = 64

type internShard struct {
	mu sync.Mutex
	m  map[internKey]*Term
}

var internTab [internShards]internShard

func init() {
	for i := range internTab {
		internTab[i].m = map[internKey]*Term{}
	}
}

func intern(k internKey, mk func() *Term) *Term {
	h := uint64(k.op)*1000003 + uint64(k.w)*31 + uint64(k.aux)*17
	if k.a0 != nil {
		h = h*1000003 + uint64(k.a0.id)
	}
	if k.a1 != nil {
		h = h*1000003 + uint64(k.a1.id)
	}
	if k.a2 != nil {
		h = h*1000003 + uint64(k.a2.id)
	}
	for i := 0; i < len(k.name); i++ {
		h = h*31 + uint64(k.name[i])
	}
	sh := &internTab[h%internShards]
	sh.mu.Lock()
	defer sh.mu.Unlock()
	if t, ok := sh.m[k]; ok {
		return t
	}
	if len(sh.m) > 200000 {
		sh.m = map[internKey]*Term{}
	}
	t := mk()
	sh.m[k] = t
	return t
}

// newTerm creates (or finds) the hash-consed term. Constants are not interned and have id 0,
// so keys built from them compare by pointer; small constants are cached, others are distinct
// pointers (which only loses sharing, never soundness).
func newTerm(op Op, w int, args ...*Term) *Term {
	k := internKey{op: op, w: w}
	switch len(args) {
	case 3:
		k.a2 = args[2]
		fallthrough
	case 2:
		k.a1 = args[1]
		fallthrough
	case 1:
		k.a0 = args[0]
	}
	return intern(k, func() *Term {
		nt := &Term{op: op, w: w, args: args, id: atomic.AddInt64(&termCounter, 1)}
		nt.setHash()
		return nt
	})
}

func newTermAux(op Op, w int, aux int, a *Term, tbl *Table) *Term {
	k := internKey{op: op, w: w, aux: aux, a0: a, tbl: tbl}
	return intern(k, func() *Term {
		t := &Term{op: op, w: w, args: []*Term{a}, aux: aux, tbl: tbl, id: atomic.AddInt64(&termCounter, 1)}
		if tbl != nil {
			t.name = tbl.name
		}
		t.setHash()
		return t
	})
}

func mask(w int) uint64 {
	if w >= 64 {
		return ^uint64(0)
	}
	return (uint64(1) << uint(w)) - 1
}

var constCache [65][]*Term
var termTrue = &Term{op: opConst, w: 0, c: 1}
var termFalse = &Term{op: opConst, w: 0, c: 0}

func init() {
	termTrue.setHash()
	termFalse.setHash()
}

func init() {
	for _, w := range []int{8, 16, 32, 64} {
		constCache[w] = make([]*Term, 1024)
		for i := range constCache[w] {
			constCache[w][i] = &Term{op: opConst, w: w, c: uint64(i)}
			constCache[w][i].setHash()
		}
	}
}

func mkBool(b bool) *Term {
	if b {
		return termTrue
	}
	return termFalse
}

func mkConst(w int, v uint64) *Term {
	if w == 0 {
		return mkBool(v&1 == 1)
	}
	v &= mask(w)
	if v < 1024 && constCache[w] != nil {
		return constCache[w][v]
	}
	ct := &Term{op: opConst, w: w, c: v}
	ct.setHash()
	return ct
}

func mkVar(name string, w int) *Term {
	return intern(internKey{op: opVar, w: w, name: name}, func() *Term {
		nt := &Term{op: opVar, w: w, name: name, id: atomic.AddInt64(&termCounter, 1)}
		nt.setHash()
		return nt
	})
}

func (t *Term) isConst() bool { return t.op == opConst }
func (t *Term) isTrue() bool  { return t.op == opConst && t.w == 0 && t.c == 1 }
func (t *Term) isFalse() bool { return t.op == opConst && t.w == 0 && t.c == 0 }

// signed value of constant
func sx(v uint64, w int) int64 {
	if w >= 64 {
		return int64(v)
	}
	if v&(1<<uint(w-1)) != 0 {
		return int64(v | ^mask(w))
	}
	return int64(v)
}

func mkNot(a *Term) *Term {
	if a.isConst() {
		return mkBool(a.c == 0)
	}
	if a.op == opNot {
		return a.args[0]
	}
	return newTerm(opNot, 0, a)
}

func mkAnd(a, b *Term) *Term {
	if a.isConst() {
		if a.c == 1 {
			return b
		}
		return termFalse
	}
	if b.isConst() {
		if b.c == 1 {
			return a
		}
		return termFalse
	}
	if same(a, b) {
		return a
	}
	return newTerm(opAnd, 0, a, b)
}

func mkOr(a, b *Term) *Term {
	if a.isConst() {
		if a.c == 1 {
			return termTrue
		}
		return b
	}
	if b.isConst() {
		if b.c == 1 {
			return termTrue
		}
		return a
	}
	if same(a, b) {
		return a
	}
	return newTerm(opOr, 0, a, b)
}

func mkIte(c, a, b *Term) *Term {
	if c.isConst() {
		if c.c == 1 {
			return a
		}
		return b
	}
	if same(a, b) {
		return a
	}
	if a.isConst() && b.isConst() && a.c == b.c {
		return a
	}
	if a.w == 0 && a.isConst() && b.isConst() {
		if a.c == 1 {
			return c
		}
		return mkNot(c)
	}
	return newTerm(opIte, a.w, c, a, b)
}

func evalBin(op Op, w int, x, y uint64) uint64 {
	m := mask(w)
	x &= m
	y &= m
	switch op {
	case opAdd:
		return (x + y) & m
	case opSub:
		return (x - y) & m
	case opMul:
		return (x * y) & m
	case opUdiv:
		if y == 0 {
			return m
		}
		return x / y
	case opUrem:
		if y == 0 {
			return x
		}
		return x % y
	case opSdiv:
		sxv, syv := sx(x, w), sx(y, w)
		if syv == 0 {
			if sxv < 0 {
				return 1
			}
			return m
		}
		if syv == -1 {
			return uint64(-sxv) & m
		}
		return uint64(sxv/syv) & m
	case opSrem:
		sxv, syv := sx(x, w), sx(y, w)
		if syv == 0 {
			return x
		}
		if syv == -1 {
			return 0
		}
		return uint64(sxv%syv) & m
	case opBvand:
		return x & y
	case opBvor:
		return x | y
	case opBvxor:
		return x ^ y
	case opShl:
		if y >= uint64(w) {
			return 0
		}
		return (x << y) & m
	case opLshr:
		if y >= uint64(w) {
			return 0
		}
		return x >> y
	case opAshr:
		s := sx(x, w)
		if y >= uint64(w) {
			if s < 0 {
				return m
			}
			return 0
		}
		return uint64(s>>y) & m
	}
	panic("evalBin")
}

func evalCmp(op Op, w int, x, y uint64) bool {
	switch op {
	case opEq:
		return x == y
	case opUlt:
		return x < y
	case opUle:
		return x <= y
	case opSlt:
		return sx(x, w) < sx(y, w)
	case opSle:
		return sx(x, w) <= sx(y, w)
	}
	panic("evalCmp")
}

// linear splits t into base + constant (base nil for a constant); sums are kept with the constant on
// the right so that (x + c1) - x, (x + c1) + c2 and (x + c1) - (x + c2) fold to constants / one addition.
func linear(t *Term) (*Term, uint64) {
	if t.isConst() {
		return nil, t.c
	}
	if t.op == opAdd && t.args[1].isConst() {
		return t.args[0], t.args[1].c
	}
	return t, 0
}

func mkLin(w int, base *Term, k uint64) *Term {
	k &= mask(w)
	if base == nil {
		return mkConst(w, k)
	}
	if k == 0 {
		return base
	}
	return newTerm(opAdd, w, base, mkConst(w, k))
}

func mkBin(op Op, a, b *Term) *Term {
	if a.w != b.w {
		panic(fmt.Sprintf("mkBin width mismatch %d %d op %d", a.w, b.w, op))
	}
	if a.isConst() && b.isConst() {
		return mkConst(a.w, evalBin(op, a.w, a.c, b.c))
	}
	if op == opAdd || op == opSub {
		ba, ka := linear(a)
		bb, kb := linear(b)
		if op == opAdd {
			if ba == nil {
				return mkLin(a.w, bb, ka+kb)
			}
			if bb == nil {
				return mkLin(a.w, ba, ka+kb)
			}
			if ka != 0 || kb != 0 {
				return mkLin(a.w, newTerm(opAdd, a.w, ba, bb), ka+kb)
			}
		} else {
			if bb == nil {
				return mkLin(a.w, ba, ka-kb)
			}
			if ba != nil && same(ba, bb) {
				return mkConst(a.w, ka-kb)
			}
			if ba != nil && (ka != 0 || kb != 0) {
				return mkLin(a.w, newTerm(opSub, a.w, ba, bb), ka-kb)
			}
		}
	}
	// light identities
	switch op {
	case opAdd:
		if a.isConst() && a.c == 0 {
			return b
		}
		if b.isConst() && b.c == 0 {
			return a
		}
	case opSub:
		if b.isConst() && b.c == 0 {
			return a
		}
	case opMul:
		if a.isConst() && a.c == 1 {
			return b
		}
		if b.isConst() && b.c == 1 {
			return a
		}
		if (a.isConst() && a.c == 0) || (b.isConst() && b.c == 0) {
			return mkConst(a.w, 0)
		}
	case opBvand:
		if (a.isConst() && a.c == 0) || (b.isConst() && b.c == 0) {
			return mkConst(a.w, 0)
		}
		if a.isConst() && a.c == mask(a.w) {
			return b
		}
		if b.isConst() && b.c == mask(a.w) {
			return a
		}
	case opBvor, opBvxor:
		if a.isConst() && a.c == 0 {
			return b
		}
		if b.isConst() && b.c == 0 {
			return a
		}
	case opShl, opLshr, opAshr:
		if b.isConst() && b.c == 0 {
			return a
		}
	}
	return newTerm(op, a.w, a, b)
}

func mkCmp(op Op, a, b *Term) *Term {
	if a.w != b.w {
		panic(fmt.Sprintf("mkCmp width mismatch %d %d", a.w, b.w))
	}
	if a.isConst() && b.isConst() {
		return mkBool(evalCmp(op, a.w, a.c, b.c))
	}
	if same(a, b) {
		switch op {
		case opEq, opUle, opSle:
			return termTrue
		default:
			return termFalse
		}
	}
	if op == opEq && a.w > 0 {
		ba, ka := linear(a)
		bb, kb := linear(b)
		if ba != nil && bb != nil && same(ba, bb) {
			return mkBool(ka&mask(a.w) == kb&mask(a.w))
		}
	}
	if op == opEq && a.w == 0 {
		// boolean equality with a constant
		if a.isConst() {
			if a.c == 1 {
				return b
			}
			return mkNot(b)
		}
		if b.isConst() {
			if b.c == 1 {
				return a
			}
			return mkNot(a)
		}
	}
	// zero-extended byte vs. out-of-range constant folds
	return newTerm(op, 0, a, b)
}

func mkEq(a, b *Term) *Term { return mkCmp(opEq, a, b) }

func mkBvnot(a *Term) *Term {
	if a.isConst() {
		return mkConst(a.w, ^a.c)
	}
	return newTerm(opBvnot, a.w, a)
}

func mkNeg(a *Term) *Term {
	if a.isConst() {
		return mkConst(a.w, -a.c)
	}
	return newTerm(opNeg, a.w, a)
}

func mkZext(a *Term, w int) *Term {
	if w == a.w {
		return a
	}
	if w < a.w {
		return mkExtract(a, w-1, 0)
	}
	if a.isConst() {
		return mkConst(w, a.c)
	}
	return newTermAux(opZext, w, w-a.w, a, nil)
}

func mkSext(a *Term, w int) *Term {
	if w == a.w {
		return a
	}
	if w < a.w {
		return mkExtract(a, w-1, 0)
	}
	if a.isConst() {
		return mkConst(w, uint64(sx(a.c, a.w)))
	}
	return newTermAux(opSext, w, w-a.w, a, nil)
}

func mkExtract(a *Term, hi, lo int) *Term {
	w := hi - lo + 1
	if lo == 0 && w == a.w {
		return a
	}
	if a.isConst() {
		return mkConst(w, a.c>>uint(lo))
	}
	// extract of an extension back to (or below) the original width
	if (a.op == opZext || a.op == opSext) && lo == 0 && w <= a.args[0].w {
		return mkExtract(a.args[0], hi, 0)
	}
	return newTermAux(opExtract, w, hi<<8|lo, a, nil)
}

func mkTbl(tbl *Table, idx *Term) *Term {
	if idx.isConst() {
		if int(idx.c) < len(tbl.vals) {
			return mkConst(tbl.ow, tbl.vals[idx.c])
		}
		return mkConst(tbl.ow, 0)
	}
	return newTermAux(opTbl, tbl.ow, 0, idx, tbl)
}

// ---- evaluation under a model ----

type Model map[string]uint64

type evaluator struct {
	m    Model
	memo map[*Term]uint64
}

func evalTerm(t *Term, m Model) uint64 {
	if t.op == opConst {
		return t.c
	}
	e := evaluator{m: m, memo: map[*Term]uint64{}}
	return e.eval(t)
}

func (e *evaluator) eval(t *Term) uint64 {
	switch t.op {
	case opConst:
		return t.c
	case opVar:
		return e.m[t.name] & maskB(t.w)
	}
	if v, ok := e.memo[t]; ok {
		return v
	}
	var r uint64
	switch t.op {
	case opNot:
		r = 1 - e.eval(t.args[0])
	case opAnd:
		r = e.eval(t.args[0]) & e.eval(t.args[1])
	case opOr:
		r = e.eval(t.args[0]) | e.eval(t.args[1])
	case opEq, opUlt, opUle, opSlt, opSle:
		if evalCmp(t.op, t.args[0].w, e.eval(t.args[0]), e.eval(t.args[1])) {
			r = 1
		}
	case opIte:
		if e.eval(t.args[0]) == 1 {
			r = e.eval(t.args[1])
		} else {
			r = e.eval(t.args[2])
		}
	case opBvnot:
		r = ^e.eval(t.args[0]) & mask(t.w)
	case opNeg:
		r = (-e.eval(t.args[0])) & mask(t.w)
	case opZext:
		r = e.eval(t.args[0])
	case opSext:
		r = uint64(sx(e.eval(t.args[0]), t.args[0].w)) & mask(t.w)
	case opExtract:
		lo := t.aux & 255
		r = (e.eval(t.args[0]) >> uint(lo)) & mask(t.w)
	case opTbl:
		i := e.eval(t.args[0])
		if int(i) < len(t.tbl.vals) {
			r = t.tbl.vals[i]
		}
	default:
		r = evalBin(t.op, t.w, e.eval(t.args[0]), e.eval(t.args[1]))
	}
	e.memo[t] = r
	return r
}

func maskB(w int) uint64 {
	if w == 0 {
		return 1
	}
	return mask(w)
}

// ---- SMT-LIB printing ----

func sortStr(w int) string {
	if w == 0 {
		return "Bool"
	}
	return fmt.Sprintf("(_ BitVec %d)", w)
}

func constStr(w int, v uint64) string {
	if w == 0 {
		if v == 1 {
			return "true"
		}
		return "false"
	}
	if w%4 == 0 {
		return fmt.Sprintf("#x%0*x", w/4, v&mask(w))
	}
	return fmt.Sprintf("#b%0*b", w, v&mask(w))
}

// printer emits terms into a solver session, declaring variables and naming
// shared sub-terms so that output stays linear in the DAG size.
type printer struct {
	out      *strings.Builder
	declared map[string]int
	named    map[*Term]string
	tables   map[string]bool
}

func (p *printer) emit(t *Term) string {
	switch t.op {
	case opConst:
		return constStr(t.w, t.c)
	case opVar:
		if _, ok := p.declared[t.name]; !ok {
			p.declared[t.name] = t.w
			fmt.Fprintf(p.out, "(declare-const %s %s)\n", t.name, sortStr(t.w))
		}
		return t.name
	}
	if n, ok := p.named[t]; ok {
		return n
	}
	var sb strings.Builder
	switch t.op {
	case opZext:
		fmt.Fprintf(&sb, "((_ zero_extend %d) %s)", t.aux, p.emit(t.args[0]))
	case opSext:
		fmt.Fprintf(&sb, "((_ sign_extend %d) %s)", t.aux, p.emit(t.args[0]))
	case opExtract:
		fmt.Fprintf(&sb, "((_ extract %d %d) %s)", t.aux>>8, t.aux&255, p.emit(t.args[0]))
	case opTbl:
		if !p.tables[t.tbl.name] {
			p.tables[t.tbl.name] = true
			p.defineTable(t.tbl)
		}
		fmt.Fprintf(&sb, "(%s %s)", t.tbl.name, p.emit(t.args[0]))
	default:
		sb.WriteString("(")
		sb.WriteString(opNames[t.op])
		for _, a := range t.args {
			sb.WriteString(" ")
			sb.WriteString(p.emit(a))
		}
		sb.WriteString(")")
	}
	s := sb.String()
	if len(s) > 48 {
		n := fmt.Sprintf("d%d", t.id)
		fmt.Fprintf(p.out, "(define-fun %s () %s %s)\n", n, sortStr(t.w), s)
		p.named[t] = n
		return n
	}
	p.named[t] = s
	return s
}

func (p *printer) defineTable(tb *Table) {
	// balanced ite tree over the index bits would be best; group equal runs.
	var sb strings.Builder
	fmt.Fprintf(&sb, "(define-fun %s ((i %s)) %s ", tb.name, sortStr(tb.iw), sortStr(tb.ow))
	// run-length encode
	type run struct {
		lo, hi int
		v      uint64
	}
	var runs []run
	for i, v := range tb.vals {
		if len(runs) > 0 && runs[len(runs)-1].v == v {
			runs[len(runs)-1].hi = i
		} else {
			runs = append(runs, run{i, i, v})
		}
	}
	var build func(rs []run) string
	build = func(rs []run) string {
		if len(rs) == 1 {
			return constStr(tb.ow, rs[0].v)
		}
		mid := len(rs) / 2
		return fmt.Sprintf("(ite (bvult i %s) %s %s)", constStr(tb.iw, uint64(rs[mid].lo)), build(rs[:mid]), build(rs[mid:]))
	}
	sb.WriteString(build(runs))
	sb.WriteString(")\n")
	p.out.WriteString(sb.String())
}
