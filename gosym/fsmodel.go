package main

type modelFS struct{}
