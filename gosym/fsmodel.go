package main

// Model file system (DESIGN §1.3): os.Open/OpenFile/ReadFile/Stat/ReadDir/Rename and the methods of
// *os.File are redirected to this in-memory model, which honours the documented POSIX/io contracts:
// Read returns (0, io.EOF) at the end, ReadAt returns (n<len, io.EOF) when short, O_TRUNC empties,
// O_CREATE creates, a descriptor opened without O_WRONLY/O_RDWR refuses Write and Truncate, a closed
// descriptor refuses everything. File contents are vectors of byte terms (symbolic), names are strings
// (possibly symbolic: lookups compare with symbolic equality and fork).

import (
	"fmt"
	"go/types"
	"sort"

	"golang.org/x/tools/go/ssa"
)

type fsNode struct {
	name    str
	isDir   bool
	content []*Term
	deleted bool
	seq     int
}

type fsHandle struct {
	abstract bool  // contents are the function file[i] = byte(i); size is a symbolic term
	absSize  *Term // 64-bit
	absPos   *Term // sequential position of an abstract file
	readAts  int
	node     *fsNode
	pos      int
	writable bool
	readable bool
	closed   bool
	append_  bool
	name     str
}

type modelFS struct {
	root    map[string]*fsNode
	nodes   []*fsNode
	handles []*fsHandle
	log     []string
	seq     int
}

// model objects that are reached through Go interfaces (fs.FileInfo, fs.DirEntry)
type fsInfo struct {
	node *fsNode
	base str
}

type nativeFn func(m *Machine, fr *frame, args []value) value

var fakeInfoType = types.NewNamed(types.NewTypeName(0, nil, "modelfs.FileInfo", nil), types.NewStruct(nil, nil), nil)
var fakeEntryType = types.NewNamed(types.NewTypeName(0, nil, "modelfs.DirEntry", nil), types.NewStruct(nil, nil), nil)

func (m *Machine) getFS() *modelFS {
	if m.fs == nil {
		m.fs = &modelFS{}
	}
	return m.fs
}

func cleanPath(s str) str {
	// strip trailing slashes, a leading "./" and doubled slashes; separators are always concrete bytes
	bs := s.bytes()
	isC := func(t *Term, c byte) bool { return t.isConst() && t.c == uint64(c) }
	for len(bs) > 1 && isC(bs[len(bs)-1], '/') {
		bs = bs[:len(bs)-1]
	}
	for len(bs) > 2 && isC(bs[0], '.') && isC(bs[1], '/') {
		bs = bs[2:]
	}
	out := make([]*Term, 0, len(bs))
	for i, b := range bs {
		if isC(b, '/') && i > 0 && isC(bs[i-1], '/') {
			continue
		}
		out = append(out, b)
	}
	// the working directory of the model is /vfs: absolute names below it are the relative names
	pre := "/vfs"
	if len(out) >= len(pre) {
		ok := true
		for i := 0; i < len(pre); i++ {
			if !isC(out[i], pre[i]) {
				ok = false
			}
		}
		if ok && len(out) == len(pre) {
			return str{s: "."}
		}
		if ok && isC(out[len(pre)], '/') {
			return mkStr(out[len(pre)+1:])
		}
	}
	return mkStr(out)
}

func (fs *modelFS) lookup(m *Machine, fr *frame, name str) *fsNode {
	name = cleanPath(name)
	if c, ok := name.concrete(); ok && (c == "." || c == "/") {
		// the working directory and the root exist and are directories (they are not entries of any listing)
		if fs.root == nil {
			fs.root = map[string]*fsNode{}
		}
		if fs.root[c] == nil {
			fs.root[c] = &fsNode{name: str{s: c}, isDir: true}
		}
		return fs.root[c]
	}
	for _, n := range fs.nodes {
		if n.deleted {
			continue
		}
		if n.name.length() != name.length() {
			continue
		}
		if m.branch(strEq(n.name, name), fr) {
			return n
		}
	}
	return nil
}

func (fs *modelFS) create(name str, isDir bool) *fsNode {
	fs.seq++
	n := &fsNode{name: cleanPath(name), isDir: isDir, seq: fs.seq}
	fs.nodes = append(fs.nodes, n)
	return n
}

func dirOf(name str) (str, str) {
	// split at the last '/', concrete separators only (names never contain symbolic '/': harness assumes it)
	bs := name.bytes()
	for i := len(bs) - 1; i >= 0; i-- {
		if bs[i].isConst() && bs[i].c == '/' {
			if i == 0 {
				return str{s: "/"}, name.slice(1, len(bs))
			}
			return name.slice(0, i), name.slice(i+1, len(bs))
		}
	}
	return str{s: "."}, name
}

func (m *Machine) ioEOF() value {
	p := m.prog.ImportedPackage("io")
	if p == nil {
		return errorValue(m, "EOF")
	}
	g := p.Var("EOF")
	if g == nil {
		return errorValue(m, "EOF")
	}
	return copyVal(m.globalObj(g).v)
}

func fsErr(m *Machine, op string, name str, msg string) value {
	n, _ := name.concrete()
	return errorValue(m, op+" "+n+": "+msg)
}

func handleOf(fr *frame, v value) *fsHandle {
	p, ok := v.(pointer)
	if !ok || p.isNil() {
		fr.rtPanic("invalid memory address or nil pointer dereference (*os.File)")
	}
	h, ok := p.obj.v.(*fsHandle)
	if !ok {
		panic(unsupported("*os.File that was not opened through the model file system (os.Stdout etc.)"))
	}
	return h
}

const (
	oWRONLY = 0x1
	oRDWR   = 0x2
	oAPPEND = 0x400
	oCREATE = 0x40
	oEXCL   = 0x80
	oTRUNC  = 0x200
)

func (m *Machine) fsOpen(fr *frame, name str, flag int64) value {
	fs := m.getFS()
	node := fs.lookup(m, fr, name)
	if node == nil {
		if flag&oCREATE == 0 {
			return tuple{pointer{}, fsErr(m, "open", name, "no such file or directory")}
		}
		// the parent directory must exist unless it is "."
		node = fs.create(name, false)
	} else if node.isDir && flag&(oWRONLY|oRDWR) != 0 {
		return tuple{pointer{}, fsErr(m, "open", name, "is a directory")}
	} else if flag&oCREATE != 0 && flag&oEXCL != 0 {
		return tuple{pointer{}, fsErr(m, "open", name, "file exists")}
	}
	h := &fsHandle{node: node, name: name}
	switch flag & 3 {
	case 0:
		h.readable = true
	case oWRONLY:
		h.writable = true
	case oRDWR:
		h.readable, h.writable = true, true
	}
	h.append_ = flag&oAPPEND != 0
	if flag&oTRUNC != 0 && h.writable && !node.isDir {
		node.content = nil
	}
	fs.handles = append(fs.handles, h)
	obj := m.newObject(h, nil)
	return tuple{pointer{obj: obj}, iface{}}
}

func (m *Machine) infoValue(n *fsNode) value {
	_, base := dirOf(n.name)
	return iface{t: fakeInfoType, v: &fsInfo{node: n, base: base}}
}

// invokeModel dispatches interface method calls on model objects.
func invokeModel(recv value, name string) nativeFn {
	switch r := recv.(type) {
	case *fsInfo:
		switch name {
		case "IsDir":
			return func(m *Machine, fr *frame, args []value) value { return mkBool(r.node.isDir) }
		case "Size":
			return func(m *Machine, fr *frame, args []value) value { return mkConst(64, uint64(len(r.node.content))) }
		case "Name":
			return func(m *Machine, fr *frame, args []value) value { return r.base }
		case "Type", "Mode":
			return func(m *Machine, fr *frame, args []value) value {
				if r.node.isDir {
					return mkConst(32, 1<<31)
				}
				return mkConst(32, 0)
			}
		case "Info":
			return func(m *Machine, fr *frame, args []value) value {
				return tuple{iface{t: fakeInfoType, v: r}, iface{}}
			}
		}
	}
	return nil
}

func byteSliceToTerms(s slice) []*Term {
	out := make([]*Term, s.len)
	if s.len > 0 {
		arr := s.arr()
		for i := 0; i < s.len; i++ {
			out[i] = arr[s.off+i].(*Term)
		}
	}
	return out
}

func init() {
	stubs["os.Open"] = func(m *Machine, fr *frame, fn *ssa.Function, args []value) value {
		return m.fsOpen(fr, args[0].(str), 0)
	}
	stubs["os.OpenFile"] = func(m *Machine, fr *frame, fn *ssa.Function, args []value) value {
		return m.fsOpen(fr, args[0].(str), m.concInt(args[1], fr))
	}
	stubs["os.Create"] = func(m *Machine, fr *frame, fn *ssa.Function, args []value) value {
		return m.fsOpen(fr, args[0].(str), oRDWR|oCREATE|oTRUNC)
	}
	stubs["os.Stat"] = func(m *Machine, fr *frame, fn *ssa.Function, args []value) value {
		n := m.getFS().lookup(m, fr, args[0].(str))
		if n == nil {
			return tuple{iface{}, fsErr(m, "stat", args[0].(str), "no such file or directory")}
		}
		return tuple{m.infoValue(n), iface{}}
	}
	stubs["os.Lstat"] = stubs["os.Stat"]
	stubs["os.ReadFile"] = func(m *Machine, fr *frame, fn *ssa.Function, args []value) value {
		n := m.getFS().lookup(m, fr, args[0].(str))
		if n == nil {
			return tuple{slice{}, fsErr(m, "open", args[0].(str), "no such file or directory")}
		}
		if n.isDir {
			return tuple{slice{}, fsErr(m, "read", args[0].(str), "is a directory")}
		}
		a := make(array, len(n.content))
		for i, b := range n.content {
			a[i] = b
		}
		obj := m.newObject(a, nil)
		return tuple{slice{obj: obj, len: len(a), cap: len(a)}, iface{}}
	}
	stubs["os.WriteFile"] = func(m *Machine, fr *frame, fn *ssa.Function, args []value) value {
		fs := m.getFS()
		n := fs.lookup(m, fr, args[0].(str))
		if n == nil {
			n = fs.create(args[0].(str), false)
		}
		n.content = byteSliceToTerms(args[1].(slice))
		return iface{}
	}
	stubs["os.ReadDir"] = func(m *Machine, fr *frame, fn *ssa.Function, args []value) value {
		fs := m.getFS()
		dirName := cleanPath(args[0].(str))
		if c, ok := dirName.concrete(); !ok || (c != "." && c != "/") {
			d := fs.lookup(m, fr, dirName)
			if d == nil || !d.isDir {
				return tuple{slice{}, fsErr(m, "open", dirName, "no such file or directory")}
			}
		}
		if c, ok := dirName.concrete(); ok && c == "/" {
			// the root of the model holds the working directory and nothing else
			a := array{iface{t: fakeEntryType, v: &fsInfo{node: &fsNode{name: str{s: "/vfs"}, isDir: true}, base: str{s: "vfs"}}}}
			obj := m.newObject(a, nil)
			return tuple{slice{obj: obj, len: 1, cap: 1}, iface{}}
		}
		type ent struct {
			n    *fsNode
			base str
		}
		var ents []ent
		for _, n := range fs.nodes {
			if n.deleted {
				continue
			}
			parent, base := dirOf(n.name)
			if base.length() == 0 {
				continue
			}
			if parent.length() != dirName.length() {
				continue
			}
			if m.branch(strEq(parent, dirName), fr) {
				ents = append(ents, ent{n, base})
			}
		}
		// os.ReadDir returns entries sorted by filename; with symbolic names keep creation order
		allConc := true
		for _, e := range ents {
			if _, ok := e.base.concrete(); !ok {
				allConc = false
			}
		}
		if allConc {
			sort.SliceStable(ents, func(i, j int) bool {
				a, _ := ents[i].base.concrete()
				b, _ := ents[j].base.concrete()
				return a < b
			})
		}
		a := make(array, len(ents))
		for i, e := range ents {
			a[i] = iface{t: fakeEntryType, v: &fsInfo{node: e.n, base: e.base}}
		}
		obj := m.newObject(a, nil)
		return tuple{slice{obj: obj, len: len(a), cap: len(a)}, iface{}}
	}
	stubs["os.Rename"] = func(m *Machine, fr *frame, fn *ssa.Function, args []value) value {
		fs := m.getFS()
		n := fs.lookup(m, fr, args[0].(str))
		if n == nil {
			return fsErr(m, "rename", args[0].(str), "no such file or directory")
		}
		if old := fs.lookup(m, fr, args[1].(str)); old != nil && old != n {
			old.deleted = true
		}
		n.name = cleanPath(args[1].(str))
		return iface{}
	}
	stubs["os.Remove"] = func(m *Machine, fr *frame, fn *ssa.Function, args []value) value {
		n := m.getFS().lookup(m, fr, args[0].(str))
		if n == nil {
			return fsErr(m, "remove", args[0].(str), "no such file or directory")
		}
		n.deleted = true
		return iface{}
	}
	stubs["os.Getwd"] = func(m *Machine, fr *frame, fn *ssa.Function, args []value) value {
		return tuple{str{s: "."}, iface{}}
	}
	stubs["(*os.File).Read"] = func(m *Machine, fr *frame, fn *ssa.Function, args []value) value {
		h := handleOf(fr, args[0])
		buf := args[1].(slice)
		if h.abstract {
			// sequential read of the abstract file = ReadAt at the (concrete) position, except that io.EOF is
			// only returned when nothing could be read
			if h.absPos == nil {
				h.absPos = mkConst(64, 0)
			}
			off := h.absPos
			rem := mkBin(opSub, h.absSize, off)
			if m.branch(mkCmp(opSle, rem, mkConst(64, 0)), fr) {
				return tuple{mkConst(64, 0), m.ioEOF()}
			}
			full := mkCmp(opSle, mkConst(64, uint64(buf.len)), rem)
			n := mkIte(full, mkConst(64, uint64(buf.len)), rem)
			if la, lazy := (*cellOf(buf.obj, buf.path)).(*lazyArr); lazy {
				oldGet := la.get
				bo := uint64(buf.off)
				*cellOf(buf.obj, buf.path) = &lazyArr{n: la.n, get: func(idx *Term) *Term {
					rel := mkBin(opSub, idx, mkConst(64, bo))
					in := mkAnd(mkCmp(opSle, mkConst(64, 0), rel), mkCmp(opSlt, rel, n))
					return mkIte(in, mkExtract(mkBin(opAdd, off, rel), 7, 0), oldGet(idx))
				}}
			} else {
				// a freshly made buffer: turn it into a lazily defined one
				bl := buf.len
				*cellOf(buf.obj, buf.path) = &lazyArr{n: bl + buf.off, get: func(idx *Term) *Term {
					rel := mkBin(opSub, idx, mkConst(64, uint64(buf.off)))
					in := mkAnd(mkCmp(opSle, mkConst(64, 0), rel), mkCmp(opSlt, rel, n))
					return mkIte(in, mkExtract(mkBin(opAdd, off, rel), 7, 0), mkConst(8, 0))
				}}
			}
			h.absPos = mkBin(opAdd, h.absPos, n)
			return tuple{n, iface{}}
		}
		if h.closed {
			return tuple{mkConst(64, 0), errorValue(m, "read: file already closed")}
		}
		if !h.readable {
			return tuple{mkConst(64, 0), errorValue(m, "read: bad file descriptor")}
		}
		if h.node.isDir {
			return tuple{mkConst(64, 0), errorValue(m, "read: is a directory")}
		}
		if buf.len == 0 {
			return tuple{mkConst(64, 0), iface{}}
		}
		rem := len(h.node.content) - h.pos
		if rem <= 0 {
			return tuple{mkConst(64, 0), m.ioEOF()}
		}
		n := buf.len
		if rem < n {
			n = rem
		}
		arr := buf.arr()
		for i := 0; i < n; i++ {
			m.storeElem(buf.obj, arr, buf.off+i, h.node.content[h.pos+i])
		}
		h.pos += n
		return tuple{mkConst(64, uint64(n)), iface{}}
	}
	stubs["(*os.File).ReadAt"] = func(m *Machine, fr *frame, fn *ssa.Function, args []value) value {
		h := handleOf(fr, args[0])
		buf := args[1].(slice)
		if h.abstract {
			// abstract file of symbolic size F whose byte at offset i is byte(i): the buffer receives
			// n = min(len(buf), F-off) bytes, the rest keeps its old contents; short read => io.EOF
			off := args[2].(*Term)
			h.readAts++
			if m.branch(mkCmp(opSlt, off, mkConst(64, 0)), fr) {
				return tuple{mkConst(64, 0), errorValue(m, "readat: negative offset")}
			}
			rem := mkBin(opSub, h.absSize, off)
			full := mkCmp(opSle, mkConst(64, uint64(buf.len)), rem)
			neg := mkCmp(opSlt, rem, mkConst(64, 0))
			n := mkIte(full, mkConst(64, uint64(buf.len)), mkIte(neg, mkConst(64, 0), rem))
			if la, lazy := (*cellOf(buf.obj, buf.path)).(*lazyArr); lazy {
				oldGet := la.get
				bo := uint64(buf.off)
				*cellOf(buf.obj, buf.path) = &lazyArr{n: la.n, get: func(idx *Term) *Term {
					rel := mkBin(opSub, idx, mkConst(64, bo)) // index relative to the slice passed to ReadAt
					in := mkAnd(mkCmp(opSle, mkConst(64, 0), rel), mkCmp(opSlt, rel, n))
					return mkIte(in, mkExtract(mkBin(opAdd, off, rel), 7, 0), oldGet(idx))
				}}
			} else if buf.len > 0 {
				arr := buf.arr()
				for i := 0; i < buf.len; i++ {
					inRange := mkCmp(opSlt, mkConst(64, uint64(i)), n)
					nb := mkExtract(mkBin(opAdd, off, mkConst(64, uint64(i))), 7, 0)
					old := arr[buf.off+i].(*Term)
					m.storeElem(buf.obj, arr, buf.off+i, mkIte(inRange, nb, old))
				}
			}
			if m.branch(full, fr) {
				return tuple{n, iface{}}
			}
			return tuple{n, m.ioEOF()}
		}
		off := m.concInt(args[2], fr)
		if h.closed {
			return tuple{mkConst(64, 0), errorValue(m, "read: file already closed")}
		}
		if !h.readable {
			return tuple{mkConst(64, 0), errorValue(m, "read: bad file descriptor")}
		}
		if off < 0 {
			return tuple{mkConst(64, 0), errorValue(m, "readat: negative offset")}
		}
		rem := len(h.node.content) - int(off)
		if rem < 0 {
			rem = 0
		}
		n := buf.len
		if rem < n {
			n = rem
		}
		if n > 0 {
			arr := buf.arr()
			for i := 0; i < n; i++ {
				m.storeElem(buf.obj, arr, buf.off+i, h.node.content[int(off)+i])
			}
		}
		if n < buf.len {
			return tuple{mkConst(64, uint64(n)), m.ioEOF()}
		}
		return tuple{mkConst(64, uint64(n)), iface{}}
	}
	writeAt := func(m *Machine, h *fsHandle, data []*Term) {
		if h.append_ {
			h.pos = len(h.node.content)
		}
		for len(h.node.content) < h.pos {
			h.node.content = append(h.node.content, mkConst(8, 0))
		}
		// copy-on-write so that earlier snapshots of the content are not disturbed
		nc := make([]*Term, len(h.node.content))
		copy(nc, h.node.content)
		for i, b := range data {
			if h.pos+i < len(nc) {
				nc[h.pos+i] = b
			} else {
				nc = append(nc, b)
			}
		}
		h.node.content = nc
		h.pos += len(data)
	}
	stubs["(*os.File).Write"] = func(m *Machine, fr *frame, fn *ssa.Function, args []value) value {
		h := handleOf(fr, args[0])
		if h.closed {
			return tuple{mkConst(64, 0), errorValue(m, "write: file already closed")}
		}
		if !h.writable {
			return tuple{mkConst(64, 0), errorValue(m, "write: bad file descriptor")}
		}
		data := byteSliceToTerms(args[1].(slice))
		writeAt(m, h, data)
		return tuple{mkConst(64, uint64(len(data))), iface{}}
	}
	stubs["(*os.File).WriteString"] = func(m *Machine, fr *frame, fn *ssa.Function, args []value) value {
		p, ok := args[0].(pointer)
		if ok && !p.isNil() {
			if _, isH := p.obj.v.(*fsHandle); !isH {
				// os.Stdout / os.Stderr
				m.stdout = append(m.stdout, args[1].(str))
				return tuple{mkConst(64, uint64(args[1].(str).length())), iface{}}
			}
		}
		h := handleOf(fr, args[0])
		if h.closed {
			return tuple{mkConst(64, 0), errorValue(m, "write: file already closed")}
		}
		if !h.writable {
			return tuple{mkConst(64, 0), errorValue(m, "write: bad file descriptor")}
		}
		data := args[1].(str).bytes()
		writeAt(m, h, data)
		return tuple{mkConst(64, uint64(len(data))), iface{}}
	}
	stubs["(*os.File).Seek"] = func(m *Machine, fr *frame, fn *ssa.Function, args []value) value {
		h := handleOf(fr, args[0])
		if h.closed {
			return tuple{mkConst(64, 0), errorValue(m, "seek: file already closed")}
		}
		off := m.concInt(args[1], fr)
		whence := m.concInt(args[2], fr)
		np := int64(0)
		switch whence {
		case 0:
			np = off
		case 1:
			np = int64(h.pos) + off
		case 2:
			np = int64(len(h.node.content)) + off
		}
		if np < 0 {
			return tuple{mkConst(64, 0), errorValue(m, "seek: invalid argument")}
		}
		h.pos = int(np)
		return tuple{mkConst(64, uint64(np)), iface{}}
	}
	stubs["(*os.File).Truncate"] = func(m *Machine, fr *frame, fn *ssa.Function, args []value) value {
		h := handleOf(fr, args[0])
		if h.closed {
			return errorValue(m, "truncate: file already closed")
		}
		if !h.writable {
			return errorValue(m, "truncate: invalid argument (file not open for writing)")
		}
		size := int(m.concInt(args[1], fr))
		nc := make([]*Term, size)
		for i := range nc {
			if i < len(h.node.content) {
				nc[i] = h.node.content[i]
			} else {
				nc[i] = mkConst(8, 0)
			}
		}
		h.node.content = nc
		return iface{}
	}
	stubs["(*os.File).Close"] = func(m *Machine, fr *frame, fn *ssa.Function, args []value) value {
		h := handleOf(fr, args[0])
		if h.closed {
			return errorValue(m, "close: file already closed")
		}
		h.closed = true
		return iface{}
	}
	stubs["(*os.File).Stat"] = func(m *Machine, fr *frame, fn *ssa.Function, args []value) value {
		h := handleOf(fr, args[0])
		if h.closed {
			return tuple{iface{}, errorValue(m, "stat: file already closed")}
		}
		return tuple{m.infoValue(h.node), iface{}}
	}
	stubs["(*os.File).Name"] = func(m *Machine, fr *frame, fn *ssa.Function, args []value) value {
		return handleOf(fr, args[0]).name
	}
	stubs["(*os.File).Sync"] = func(m *Machine, fr *frame, fn *ssa.Function, args []value) value { return iface{} }

	// harness side of the model file system
	harnessAPI["vfsWrite"] = func(m *Machine, fr *frame, fn *ssa.Function, args []value) value {
		fs := m.getFS()
		n := fs.lookup(m, fr, args[0].(str))
		if n == nil {
			n = fs.create(args[0].(str), false)
		}
		n.content = args[1].(str).bytes()
		return nil
	}
	harnessAPI["vfsMkdir"] = func(m *Machine, fr *frame, fn *ssa.Function, args []value) value {
		fs := m.getFS()
		if fs.lookup(m, fr, args[0].(str)) == nil {
			fs.create(args[0].(str), true)
		}
		return nil
	}
	harnessAPI["vfsRead"] = func(m *Machine, fr *frame, fn *ssa.Function, args []value) value {
		n := m.getFS().lookup(m, fr, args[0].(str))
		if n == nil || n.isDir {
			return tuple{str{}, termFalse}
		}
		return tuple{mkStr(n.content), termTrue}
	}
	harnessAPI["vfsExists"] = func(m *Machine, fr *frame, fn *ssa.Function, args []value) value {
		return mkBool(m.getFS().lookup(m, fr, args[0].(str)) != nil)
	}
	harnessAPI["vfsCount"] = func(m *Machine, fr *frame, fn *ssa.Function, args []value) value {
		c := 0
		for _, n := range m.getFS().nodes {
			if !n.deleted {
				c++
			}
		}
		return mkConst(64, uint64(c))
	}
	harnessAPI["vfsOpenHandles"] = func(m *Machine, fr *frame, fn *ssa.Function, args []value) value {
		c := 0
		for _, h := range m.getFS().handles {
			if !h.closed {
				c++
			}
		}
		return mkConst(64, uint64(c))
	}
	harnessAPI["vfsAbstractFile"] = func(m *Machine, fr *frame, fn *ssa.Function, args []value) value {
		h := &fsHandle{abstract: true, absSize: args[0].(*Term), readable: true, node: &fsNode{}}
		m.getFS().handles = append(m.getFS().handles, h)
		return pointer{obj: m.newObject(h, nil)}
	}
	// vLazyWindow(n, base, valid, junk): a []byte of length n whose element k is byte(base+k) for k < valid, junk otherwise
	harnessAPI["vLazyWindow"] = func(m *Machine, fr *frame, fn *ssa.Function, args []value) value {
		n := int(m.concInt(args[0], fr))
		base, valid, junk := args[1].(*Term), args[2].(*Term), args[3].(*Term)
		la := &lazyArr{n: n, get: func(idx *Term) *Term {
			return mkIte(mkCmp(opSlt, idx, valid), mkExtract(mkBin(opAdd, base, idx), 7, 0), junk)
		}}
		obj := m.newObject(la, nil)
		return slice{obj: obj, len: n, cap: n}
	}
	harnessAPI["vfsAbstractTouch"] = func(m *Machine, fr *frame, fn *ssa.Function, args []value) value { return nil }
	harnessAPI["vfsReadAtCalls"] = func(m *Machine, fr *frame, fn *ssa.Function, args []value) value {
		return mkConst(64, uint64(handleOf(fr, args[0]).readAts))
	}
	harnessAPI["vfsInit"] = func(m *Machine, fr *frame, fn *ssa.Function, args []value) value {
		m.fs = &modelFS{}
		return nil
	}
	harnessAPI["vfsCwd"] = func(m *Machine, fr *frame, fn *ssa.Function, args []value) value { return str{s: "/vfs"} }
	harnessAPI["vfsDone"] = func(m *Machine, fr *frame, fn *ssa.Function, args []value) value { return nil }
}

var _ = fmt.Sprint
