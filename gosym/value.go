package main

import (
	"fmt"
	"go/types"
	"strings"

	"golang.org/x/tools/go/ssa"
)

// value is one of:
//
//	*Term                 bool, integers (bit-vectors)
//	float64               floats (concrete only)
//	str                   strings: concrete length, bytes are terms (or fully concrete)
//	structure             struct values
//	array                 array values
//	slice                 slices: window onto an array stored in an object
//	pointer               pointer to (a part of) an object
//	iface                 interface value with a concrete dynamic type
//	*mapObj               maps
//	*closure, *ssa.Function, *ssa.Builtin   functions
//	tuple                 multi-value results
//	*iterator             range iterators
type value interface{}

type str struct {
	s string  // used when b == nil
	b []*Term // symbolic bytes (len fixed)
}

func (s str) length() int {
	if s.b != nil {
		return len(s.b)
	}
	return len(s.s)
}

func (s str) at(i int) *Term {
	if s.b != nil {
		return s.b[i]
	}
	return mkConst(8, uint64(s.s[i]))
}

func (s str) bytes() []*Term {
	if s.b != nil {
		return s.b
	}
	r := make([]*Term, len(s.s))
	for i := 0; i < len(s.s); i++ {
		r[i] = mkConst(8, uint64(s.s[i]))
	}
	return r
}

func (s str) concrete() (string, bool) {
	if s.b == nil {
		return s.s, true
	}
	bs := make([]byte, len(s.b))
	for i, t := range s.b {
		if !t.isConst() {
			return "", false
		}
		bs[i] = byte(t.c)
	}
	return string(bs), true
}

func mkStr(b []*Term) str {
	for _, t := range b {
		if !t.isConst() {
			return str{b: b}
		}
	}
	bs := make([]byte, len(b))
	for i, t := range b {
		bs[i] = byte(t.c)
	}
	return str{s: string(bs)}
}

func (s str) slice(lo, hi int) str {
	if s.b == nil {
		return str{s: s.s[lo:hi]}
	}
	return mkStr(s.b[lo:hi])
}

func concatStr(a, b str) str {
	if a.b == nil && b.b == nil {
		return str{s: a.s + b.s}
	}
	if a.length() == 0 {
		return b
	}
	if b.length() == 0 {
		return a
	}
	r := make([]*Term, 0, a.length()+b.length())
	r = append(r, a.bytes()...)
	r = append(r, b.bytes()...)
	return str{b: r}
}

// lazyArr is a byte array whose element at a (possibly symbolic) index is given by a function of the
// index term; used for the 4096-byte window of BufferedFile in the C07 lemma (no ITE chain, no SMT arrays).
type lazyArr struct {
	n   int
	get func(idx *Term) *Term
}

type structure []value
type array []value
type tuple []value

type object struct {
	id     int
	epoch  int // 0 = created during initialisation (global), otherwise path-local
	v      value
	frozen bool
	global *ssa.Global // non-nil if this is a package-level variable
	typ    types.Type
	site   string
}

type pointer struct {
	obj  *object
	path []int
	// optional symbolic last index (into an array at obj/path) not yet concretised
	sym          *Term
	symLo, symHi int
}

func (p pointer) isNil() bool { return p.obj == nil }

type slice struct {
	obj  *object
	path []int
	off  int
	len  int
	cap  int
}

func (s slice) isNil() bool { return s.obj == nil }

type iface struct {
	t types.Type
	v value
}

type closure struct {
	fn  *ssa.Function
	env []value
}

type mapObj struct {
	keyT  types.Type
	keys  []value
	vals  []value
	dead  []bool
	index map[string]int // concrete-key index
	n     int
	id    int
	epoch int
}

type iterator struct {
	// string iteration
	s   str
	pos int
	// map iteration
	m    *mapObj
	keys []value
	vals []value
	idx  int
}

// bound method closure / builtin stubs
type boundMethod struct {
	fn   *ssa.Function
	recv value
}

func typeWidth(t types.Type) (w int, signed bool, ok bool) {
	b, isb := t.Underlying().(*types.Basic)
	if !isb {
		return 0, false, false
	}
	switch b.Kind() {
	case types.Bool, types.UntypedBool:
		return 0, false, true
	case types.Int8:
		return 8, true, true
	case types.Int16:
		return 16, true, true
	case types.Int32, types.UntypedRune:
		return 32, true, true
	case types.Int, types.Int64, types.UntypedInt:
		return 64, true, true
	case types.Uint8:
		return 8, false, true
	case types.Uint16:
		return 16, false, true
	case types.Uint32:
		return 32, false, true
	case types.Uint, types.Uint64, types.Uintptr:
		return 64, false, true
	}
	return 0, false, false
}

func isStringType(t types.Type) bool {
	b, ok := t.Underlying().(*types.Basic)
	return ok && (b.Kind() == types.String || b.Kind() == types.UntypedString)
}

func isFloatType(t types.Type) bool {
	b, ok := t.Underlying().(*types.Basic)
	return ok && (b.Kind() == types.Float32 || b.Kind() == types.Float64 || b.Kind() == types.UntypedFloat)
}

func zero(t types.Type) value {
	switch t := t.(type) {
	case *types.Basic:
		if t.Kind() == types.UntypedNil {
			panic(unsupported("untyped nil has no zero value"))
		}
		if w, _, ok := typeWidth(t); ok {
			return mkConst(w, 0)
		}
		if isStringType(t) {
			return str{}
		}
		if isFloatType(t) {
			return float64(0)
		}
		if t.Kind() == types.UnsafePointer {
			return pointer{}
		}
		panic(unsupported("zero of basic " + t.String()))
	case *types.Pointer:
		return pointer{}
	case *types.Array:
		a := make(array, t.Len())
		for i := range a {
			a[i] = zero(t.Elem())
		}
		return a
	case *types.Slice:
		return slice{}
	case *types.Struct:
		s := make(structure, t.NumFields())
		for i := range s {
			s[i] = zero(t.Field(i).Type())
		}
		return s
	case *types.Tuple:
		if t.Len() == 1 {
			return zero(t.At(0).Type())
		}
		s := make(tuple, t.Len())
		for i := range s {
			s[i] = zero(t.At(i).Type())
		}
		return s
	case *types.Chan:
		return nil
	case *types.Map:
		return (*mapObj)(nil)
	case *types.Signature:
		return (*closure)(nil)
	case *types.Interface:
		return iface{}
	case *types.Named:
		return zero(t.Underlying())
	case *types.Alias:
		return zero(types.Unalias(t))
	case *types.TypeParam:
		panic(unsupported("zero of type parameter"))
	}
	panic(unsupported(fmt.Sprintf("zero of %T", t)))
}

func copyVal(v value) value {
	switch v := v.(type) {
	case structure:
		r := make(structure, len(v))
		for i, f := range v {
			r[i] = copyVal(f)
		}
		return r
	case array:
		r := make(array, len(v))
		for i, f := range v {
			r[i] = copyVal(f)
		}
		return r
	}
	return v
}

type unsupportedErr struct{ msg string }

func unsupported(msg string) unsupportedErr { return unsupportedErr{msg} }

// short rendering for diagnostics
func valString(v value) string {
	switch v := v.(type) {
	case nil:
		return "<nil>"
	case *Term:
		if v.isConst() {
			if v.w == 0 {
				return fmt.Sprint(v.c == 1)
			}
			return fmt.Sprint(sx(v.c, v.w))
		}
		return "<sym>"
	case str:
		if s, ok := v.concrete(); ok {
			return fmt.Sprintf("%q", s)
		}
		return fmt.Sprintf("<symstr len %d>", v.length())
	case iface:
		if v.t == nil {
			return "nil"
		}
		return fmt.Sprintf("%s(%s)", v.t, valString(v.v))
	case structure:
		var parts []string
		for _, f := range v {
			parts = append(parts, valString(f))
		}
		return "{" + strings.Join(parts, ",") + "}"
	case pointer:
		if v.isNil() {
			return "nil"
		}
		return fmt.Sprintf("&obj%d%v", v.obj.id, v.path)
	case slice:
		return fmt.Sprintf("slice(len %d)", v.len)
	}
	return fmt.Sprintf("%T", v)
}
