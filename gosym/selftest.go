package main

import (
	"bytes"
	"encoding/json"
	"fmt"
	"go/ast"
	"go/parser"
	"go/token"
	"os"
	"os/exec"
	"path/filepath"
	"regexp"
	"strconv"
	"strings"
	"time"
)

// extractTestPairs reads libvore/*_test.go and pairs every Compile(<string literal>) with the
// Run(<string literal>) calls of the same test function.
func extractTestPairs() [][2]string {
	var pairs [][2]string
	files, _ := filepath.Glob(filepath.Join(repoRoot, "libvore", "*_test.go"))
	fset := token.NewFileSet()
	for _, f := range files {
		af, err := parser.ParseFile(fset, f, nil, 0)
		if err != nil {
			continue
		}
		for _, d := range af.Decls {
			fd, ok := d.(*ast.FuncDecl)
			if !ok || fd.Body == nil {
				continue
			}
			var progs, texts []string
			ast.Inspect(fd.Body, func(n ast.Node) bool {
				call, ok := n.(*ast.CallExpr)
				if !ok || len(call.Args) != 1 {
					return true
				}
				lit, ok := call.Args[0].(*ast.BasicLit)
				if !ok || lit.Kind != token.STRING {
					return true
				}
				s, err := strconv.Unquote(lit.Value)
				if err != nil {
					return true
				}
				name := ""
				switch fn := call.Fun.(type) {
				case *ast.Ident:
					name = fn.Name
				case *ast.SelectorExpr:
					name = fn.Sel.Name
				}
				if name == "Compile" {
					progs = append(progs, s)
				} else if name == "Run" {
					texts = append(texts, s)
				}
				return true
			})
			for _, p := range progs {
				if len(texts) == 0 {
					pairs = append(pairs, [2]string{p, "abc 123\nxyz"})
				}
				for _, t := range texts {
					pairs = append(pairs, [2]string{p, t})
				}
			}
		}
	}
	return pairs
}

func selftestOverlaySpec(dataFile string) map[string][]string {
	return map[string][]string{"libvore": {"common/lib.go", "selftest/selftest.go", dataFile}}
}

// runSelftest returns (compared, mismatches, error). limit <= 0 means all pairs.
func runSelftest(limit int, verbose bool) (int, []string, error) {
	pairs := extractTestPairs()
	if limit > 0 && len(pairs) > limit {
		// evenly spread subset
		step := float64(len(pairs)) / float64(limit)
		var sub [][2]string
		for i := 0; i < limit; i++ {
			sub = append(sub, pairs[int(float64(i)*step)])
		}
		pairs = sub
	}
	if len(pairs) == 0 {
		return 0, nil, fmt.Errorf("no (program, text) pairs found in libvore/*_test.go")
	}
	var sb strings.Builder
	sb.WriteString("package libvore\n\nvar stPairs = [][2]string{\n")
	for _, p := range pairs {
		fmt.Fprintf(&sb, "\t{%s, %s},\n", strconv.Quote(p[0]), strconv.Quote(p[1]))
	}
	sb.WriteString("}\n")
	work := filepath.Join(verifRoot(), "work", fmt.Sprintf("selftest%d-%d", os.Getpid(), time.Now().UnixNano()))
	os.MkdirAll(work, 0o755)
	defer os.RemoveAll(work)
	dataPath := filepath.Join(work, "zz_generated_pairs.go")
	os.WriteFile(dataPath, []byte(sb.String()), 0o644)
	spec := selftestOverlaySpec(dataPath)
	// native dumps
	ov, err := buildOverlay(spec)
	if err != nil {
		return 0, nil, err
	}
	replace := map[string]string{}
	n := 0
	for vpath, content := range ov {
		real := filepath.Join(work, fmt.Sprintf("f%d.go", n))
		n++
		os.WriteFile(real, content, 0o644)
		replace[vpath] = real
	}
	test := "package libvore\n\nimport (\n\t\"fmt\"\n\t\"strconv\"\n\t\"testing\"\n)\n\nfunc TestVerifSelftestDump(t *testing.T) {\n\tfor i := 0; i < VerifSelftestCount(); i++ {\n\t\tfmt.Printf(\"STDUMP %d %s\\n\", i, strconv.Quote(stDump(stPairs[i][0], stPairs[i][1])))\n\t}\n}\n"
	testReal := filepath.Join(work, "st_test.go")
	os.WriteFile(testReal, []byte(test), 0o644)
	replace[filepath.Join(repoRoot, "libvore", "zz_verif_selftest_test.go")] = testReal
	ovb, _ := json.Marshal(map[string]interface{}{"Replace": replace})
	ovPath := filepath.Join(work, "overlay.json")
	os.WriteFile(ovPath, ovb, 0o644)
	cmd := exec.Command("go", "test", "-v", "-vet=off", "-count=1", "-overlay", ovPath, "-run", "^TestVerifSelftestDump$", ".")
	cmd.Dir = filepath.Join(repoRoot, "libvore")
	cmd.Env = goEnv()
	var out bytes.Buffer
	cmd.Stdout = &out
	cmd.Stderr = &out
	if err := cmd.Run(); err != nil {
		return 0, nil, fmt.Errorf("native selftest run failed: %v\n%s", err, tailStr(out.String(), 2000))
	}
	native := map[int]string{}
	re := regexp.MustCompile(`(?m)^STDUMP (\d+) (".*")$`)
	for _, m := range re.FindAllStringSubmatch(out.String(), -1) {
		i, _ := strconv.Atoi(m[1])
		s, _ := strconv.Unquote(m[2])
		native[i] = s
	}
	// gosym dumps
	l, err := loadRepo(ov, []string{pkgImportPath("libvore")})
	if err != nil {
		return 0, nil, err
	}
	fn, err := l.fn("libvore", "VerifSelftest")
	if err != nil {
		return 0, nil, err
	}
	initCPUTokens(16)
	var mismatches []string
	type res struct {
		i    int
		dump string
		err  string
	}
	ch := make(chan res, len(pairs))
	sem := make(chan struct{}, 16)
	for i := range pairs {
		sem <- struct{}{}
		go func(i int) {
			defer func() { <-sem }()
			args, _ := intArgs(fn, []int64{int64(i)})
			r := Explore(l.prog, fn, args, ExploreOpts{Workers: 1, Solver: "z3", TimeoutMs: 10000, Budget: 200_000_000})
			if len(r.Samples) == 1 && r.Paths == 1 {
				ch <- res{i, r.Samples[0].Notes["dump"], ""}
				return
			}
			msg := fmt.Sprintf("paths=%d counts=%v", r.Paths, r.Counts)
			for _, o := range r.Outcomes {
				msg += " " + o.Kind + ":" + o.Msg
			}
			ch <- res{i, "", msg}
		}(i)
	}
	for range pairs {
		r := <-ch
		if r.err != "" {
			mismatches = append(mismatches, fmt.Sprintf("pair %d (%q): gosym did not complete one concrete path: %s", r.i, pairs[r.i][0], r.err))
			continue
		}
		if r.dump != native[r.i] {
			mismatches = append(mismatches, fmt.Sprintf("pair %d program %q text %q:\n  native: %s\n  gosym:  %s", r.i, pairs[r.i][0], pairs[r.i][1], native[r.i], r.dump))
		} else if verbose {
			fmt.Printf("selftest pair %d ok\n", r.i)
		}
	}
	return len(pairs), mismatches, nil
}

func tailStr(s string, n int) string {
	if len(s) > n {
		return s[len(s)-n:]
	}
	return s
}

func cmdSelftest(argv []string) int {
	limit := 0
	if len(argv) > 0 {
		limit, _ = strconv.Atoi(argv[0])
	}
	start := time.Now()
	n, mism, err := runSelftest(limit, false)
	if err != nil {
		fmt.Fprintln(os.Stderr, "selftest:", err)
		return 3
	}
	for _, m := range mism {
		fmt.Println("SELFTEST-MISMATCH", m)
	}
	fmt.Printf("selftest: %d (program, text) pairs of the repository's tests compared native vs gosym, %d mismatches, %.1fs\n", n, len(mism), time.Since(start).Seconds())
	if len(mism) > 0 {
		return 3
	}
	return 0
}
