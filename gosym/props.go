package main

func seqArgs(n int, rest ...int64) [][]int64 {
	var out [][]int64
	for i := 0; i < n; i++ {
		out = append(out, append([]int64{int64(i)}, rest...))
	}
	return out
}

// countOf runs a concrete "count" function of the harness to learn how many jobs a group has.
func countOf(l *Loaded, pkg, fn string) int {
	f, err := l.fn(pkg, fn)
	if err != nil {
		panic(err)
	}
	res := Explore(l.prog, f, nil, ExploreOpts{Workers: 1, Solver: "z3", TimeoutMs: 10000, Budget: 10_000_000})
	_ = res
	return int(lastCount)
}

var lastCount int64

func init() {
	properties["T00"] = &PropertySpec{ID: "T00", Groups: []JobGroup{{
		Name: "toy2", Overlay: map[string][]string{"libvore": {"toy/toy2.go"}}, Pkg: "libvore", Entry: "VerifToy2",
		Args: func(tier string, l *Loaded) [][]int64 { return [][]int64{{2}, {3}} },
	}}}
}
