package main

func tOf(tier string, q, th int64) int64 {
	if tier == "thorough" {
		return th
	}
	return q
}

func seqArgs(n int, rest ...int64) [][]int64 {
	var out [][]int64
	for i := 0; i < n; i++ {
		out = append(out, append([]int64{int64(i)}, rest...))
	}
	return out
}

// countOf runs a concrete "count" function of the harness to learn how many jobs a group has.
func countOf(l *Loaded, pkg, fn string) int {
	f, err := l.fn(pkg, fn)
	if err != nil {
		panic(err)
	}
	if len(cpuTokens) == 0 {
		initCPUTokens(16)
	}
	res := Explore(l.prog, f, nil, ExploreOpts{Workers: 1, Solver: "z3", TimeoutMs: 10000, Budget: 10_000_000})
	return int(res.Ret)
}

var libOverlay = func(files ...string) map[string][]string {
	return map[string][]string{"libvore": append([]string{"common/lib.go"}, files...)}
}

func init() {
	properties["C01"] = &PropertySpec{ID: "C01",
		Rule:        "shapes: every atom kind alone, every combinator over literal atoms, global-pattern programs (list in harness/C01/c01.go), plus the generated family F2 = 10 quantifier forms x 10 quantifier forms x 9 structural positions (nested, sequence-in-loop, alternation-in-loop, adjacent loops, capture+back-reference under loops, inline subroutine called twice, global pattern referenced twice, subroutine / global pattern called inside every loop form) = 900 programs; code-shape lead for every program of all families plus 17 programs with counted loops of 2..4 copies around calls, alternations and lists: when the generated code does not have the expected jump-target shape (calls target the StartSubroutine of their name, loop starts/stops pair up, branch/jump/not-in targets in range) the program is compared with the reference semantics on all ASCII texts of length 0..6 (thorough 8) and a violation is reported only with a distinguishing input, otherwise the run is inconclusive; text: all ASCII strings of length 0..T (quick T=3, thorough T=4); literal bytes symbolic (printable ASCII) in the symbolic-literal group; `in` lists: every ordered selection of 3 options from {'a', 'b', 'bc', 'ab', 'a' to 'b'} x 4 contexts (alone, followed by a literal, under a loop, captured with back-reference) = 240 programs at T = 3; long inputs: 12 programs with a closed-form answer on texts u^k t (k saved backtracking states, loop iterations, nested calls, captured bytes), k symbolic in [30,34], [62,66], [126,130] (thorough also [14,18], [254,258], [510,514]); the enumerated grammar family of C02 (68 400 programs), every 199th starting at 101 (thorough every 23rd) at T = 3, spans and variables against the reference matcher",
		Assumptions: []string{"ASCII text", "loop ids returned by math/rand.Int63 are pairwise distinct", "programs on which the property statement is silent (empty literals, empty/unbound back-references, named loops, whole file/line/word) are assumed away"},
		Groups: []JobGroup{
			{Name: "c01-concrete-literals", Overlay: libOverlay("C01/c01.go"), Pkg: "libvore", Entry: "VerifC01",
				Args: func(tier string, l *Loaded) [][]int64 {
					T := int64(3)
					if tier == "thorough" {
						T = 4
					}
					return seqArgs(countOf(l, "libvore", "VerifC01Count"), T, 0, 0)
				}},
			{Name: "c01-symbolic-literals", Overlay: libOverlay("C01/c01.go"), Pkg: "libvore", Entry: "VerifC01",
				Args: func(tier string, l *Loaded) [][]int64 {
					T := int64(3)
					if tier == "thorough" {
						T = 4
					}
					return seqArgs(countOf(l, "libvore", "VerifC01Count"), T, 3, 0)
				}},
			{Name: "c01-generated", Overlay: libOverlay("C01/c01.go"), Pkg: "libvore", Entry: "VerifC01Gen", PanicOK: true,
				Args: func(tier string, l *Loaded) [][]int64 {
					return seqArgs(countOf(l, "libvore", "VerifC01GenCount"), tOf(tier, 3, 4), 0)
				}},
			{Name: "c01-wellformed", Overlay: libOverlay("C01/c01.go", "C01/wellformed.go"), Pkg: "libvore", Entry: "VerifC01WellFormed", PanicOK: true, MaxFailures: 2,
				Args: func(tier string, l *Loaded) [][]int64 {
					return seqArgs(countOf(l, "libvore", "VerifC01WellFormedCount"), tOf(tier, 6, 8))
				}},
			{Name: "c01-lists", Overlay: libOverlay("C01/c01.go", "C01/c01_lists.go"), Pkg: "libvore", Entry: "VerifC01Lists", PanicOK: true, MaxFailures: 2,
				Args: func(tier string, l *Loaded) [][]int64 {
					return seqArgs(countOf(l, "libvore", "VerifC01ListsCount"), 3)
				}},
			{Name: "c01-long", Overlay: libOverlay("C01/c01.go", "C01/c01_long.go"), Pkg: "libvore", Entry: "VerifC01Long", PanicOK: true, MaxFailures: 3, Budget: 400_000_000,
				Args: func(tier string, l *Loaded) [][]int64 {
					var out [][]int64
					n := countOf(l, "libvore", "VerifC01LongCount")
					bases := []int64{30, 62, 126}
					if tier == "thorough" {
						bases = []int64{14, 30, 62, 126, 254, 510}
					}
					for c := 0; c < n; c++ {
						for _, b := range bases {
							out = append(out, []int64{int64(c), b, 5})
						}
					}
					return out
				}},
			{Name: "c01-enum", Overlay: libOverlay("C01/c01.go", "C02/c02.go", "C02/c02_enum.go"), Pkg: "libvore", Entry: "VerifC02Enum", PanicOK: true, MaxFailures: 2,
				Args: func(tier string, l *Loaded) [][]int64 {
					total := countOf(l, "libvore", "VerifC02EnumTotal")
					stride, off := int(tOf(tier, 199, 23)), 101
					var out [][]int64
					for i := off; i < total; i += stride {
						out = append(out, []int64{int64(i), 3})
					}
					return out
				}},
			{Name: "c01-twin", Overlay: libOverlay("C01/c01.go"), Pkg: "libvore", Entry: "VerifC01", Twin: true,
				Args: func(tier string, l *Loaded) [][]int64 { return [][]int64{{0, 2, 0, 1}} }},
		}}
	properties["C02"] = &PropertySpec{ID: "C02",
		Rule:        "capture-bearing shapes (captures under alternation, optional/repeated groups, subroutine calls, followed by constructs that can fail; back-references) x all ASCII texts of length 0..T (quick 3, thorough 4); literal bytes symbolic in the second group; 9 shapes with captures around recursive calls / sibling captures with inner choice points at T = 4 (thorough 5); generated family: 6 choice-point prefixes (overlapping lists, alternation, greedy/lazy loops, optional) x 6 captured bodies x 4 contexts in which the capture's path is abandoned (alternation, optional group, repeated group, sibling capture) + back-reference after an abandoned binding = 149 programs at T = 3 (thorough 4); enumerated grammar family (5 quantifier forms x (6 atoms | sequence, alternation, capture, inline subroutine of two quantified atoms), followed by nothing, a literal, a back-reference or a call): 68 400 programs, every 199th (thorough every 23rd) at T = 3",
		Assumptions: []string{"ASCII text", "distinct loop ids", "unbound or empty back-references are assumed away (statement silent / C09)"},
		Groups: []JobGroup{
			{Name: "c02", Overlay: libOverlay("C02/c02.go"), Pkg: "libvore", Entry: "VerifC02", PanicOK: true,
				Args: func(tier string, l *Loaded) [][]int64 {
					return seqArgs(countOf(l, "libvore", "VerifC02Count"), tOf(tier, 3, 4), 0, 0)
				}},
			{Name: "c02-symlit", Overlay: libOverlay("C02/c02.go"), Pkg: "libvore", Entry: "VerifC02", PanicOK: true,
				Args: func(tier string, l *Loaded) [][]int64 {
					return seqArgs(countOf(l, "libvore", "VerifC02Count"), tOf(tier, 3, 4), 3, 0)
				}},
			{Name: "c02-deep", Overlay: libOverlay("C02/c02.go"), Pkg: "libvore", Entry: "VerifC02Deep", PanicOK: true,
				Args: func(tier string, l *Loaded) [][]int64 {
					return seqArgs(countOf(l, "libvore", "VerifC02DeepCount"), tOf(tier, 4, 5))
				}},
			{Name: "c02-generated", Overlay: libOverlay("C02/c02.go"), Pkg: "libvore", Entry: "VerifC02Gen", PanicOK: true,
				Args: func(tier string, l *Loaded) [][]int64 {
					return seqArgs(countOf(l, "libvore", "VerifC02GenCount"), tOf(tier, 3, 4))
				}},
			{Name: "c02-enum", Overlay: libOverlay("C01/c01.go", "C02/c02.go", "C02/c02_enum.go"), Pkg: "libvore", Entry: "VerifC02Enum", PanicOK: true, MaxFailures: 2,
				Args: func(tier string, l *Loaded) [][]int64 {
					total := countOf(l, "libvore", "VerifC02EnumTotal")
					stride, off := int(tOf(tier, 199, 23)), 0
					var out [][]int64
					for i := off; i < total; i += stride {
						out = append(out, []int64{int64(i), 3})
					}
					return out
				}},
			{Name: "c02-twin", Overlay: libOverlay("C02/c02.go"), Pkg: "libvore", Entry: "VerifC02", Twin: true, PanicOK: true,
				Args: func(tier string, l *Loaded) [][]int64 { return [][]int64{{0, 2, 0, 1}} }},
		}}
	properties["C03"] = &PropertySpec{ID: "C03",
		Rule:        "shapes incl. whole line/file/word, regex literals, named loops, replace, multi-command (harness/C03/c03.go) x texts of length 0..T: ASCII with column claim (quick 3, thorough 4) and all 256 byte values without column claim (quick 3, thorough 4); 10 skip/take/last shapes with multi-byte matches at T = 4 (thorough 5); the 149 generated capture programs of C02 (captures whose path can be abandoned) with C03's assertions (variables are substrings of the value) at T = 3 (thorough 4); long inputs: 4 programs on texts of k lines, k symbolic in [30,34], [62,66], [126,130] (thorough up to [1022,1026]), closed-form offsets / lines / columns / numbers",
		Assumptions: []string{"column claim for ASCII inputs only (as the property states)"},
		Groups: []JobGroup{
			{Name: "c03-ascii", Overlay: libOverlay("C03/c03.go"), Pkg: "libvore", Entry: "VerifC03", PanicOK: true,
				Args: func(tier string, l *Loaded) [][]int64 {
					return seqArgs(countOf(l, "libvore", "VerifC03Count"), tOf(tier, 3, 4), 1, 0)
				}},
			{Name: "c03-bytes", Overlay: libOverlay("C03/c03.go"), Pkg: "libvore", Entry: "VerifC03", PanicOK: true,
				Args: func(tier string, l *Loaded) [][]int64 {
					return seqArgs(countOf(l, "libvore", "VerifC03Count"), tOf(tier, 3, 4), 0, 0)
				}},
			{Name: "c03-skip", Overlay: libOverlay("C03/c03.go"), Pkg: "libvore", Entry: "VerifC03Skip", PanicOK: true,
				Args: func(tier string, l *Loaded) [][]int64 {
					return seqArgs(countOf(l, "libvore", "VerifC03SkipCount"), tOf(tier, 4, 5))
				}},
			{Name: "c03-captures", Overlay: libOverlay("C02/c02.go", "C03/c03.go", "C03/c03_captures.go"), Pkg: "libvore", Entry: "VerifC03Captures", PanicOK: true,
				Args: func(tier string, l *Loaded) [][]int64 {
					return seqArgs(countOf(l, "libvore", "VerifC03CapturesCount"), tOf(tier, 3, 4))
				}},
			{Name: "c03-long", Overlay: libOverlay("C03/c03.go", "C03/c03_long.go"), Pkg: "libvore", Entry: "VerifC03Long", PanicOK: true, MaxFailures: 3, Budget: 400_000_000,
				Args: func(tier string, l *Loaded) [][]int64 {
					var out [][]int64
					bases := []int64{30, 62, 126}
					if tier == "thorough" {
						bases = []int64{14, 30, 62, 126, 254, 510, 1022}
					}
					for c := int64(0); c < 4; c++ {
						for _, b := range bases {
							out = append(out, []int64{c, b, 5})
						}
					}
					return out
				}},
			{Name: "c03-twin", Overlay: libOverlay("C03/c03.go"), Pkg: "libvore", Entry: "VerifC03", Twin: true, PanicOK: true,
				Args: func(tier string, l *Loaded) [][]int64 { return [][]int64{{2, 2, 1, 1}} }},
		}}
	properties["C04"] = &PropertySpec{ID: "C04",
		Rule:        "bodies whose occurrences can overlap or abut (harness/C04/c04.go) x ASCII texts of length 0..T (find quick 3 / thorough 4; replace 3 / 4; 'aa' and 'ab' with symbolic literal bytes at T=4 / 5) x symbolic s,t,n in [0,4]; find and replace; amount clause -> tuple mapping checked on the real lexer+parser with symbolic one- and two-digit numbers; large windows: texts of k unit copies, k symbolic in [64,72] (thorough [40,80]), n,s symbolic in [0,36] (thorough 40) for top/skip/last (find and replace), skip s take t with k in [30,36], s,t<=12 (thorough k in [24,40], s,t<=14) — counts cross the internal capacities of the window queue",
		Assumptions: []string{"ASCII text", "s,t,n <= 4 (straddles len(A) <= T)"},
		Groups: []JobGroup{
			{Name: "c04-find", Overlay: libOverlay("C04/c04.go"), Pkg: "libvore", Entry: "VerifC04", PanicOK: true,
				Args: func(tier string, l *Loaded) [][]int64 {
					return seqArgs(countOf(l, "libvore", "VerifC04Count"), tOf(tier, 3, 4), 0, 0, 0)
				}},
			{Name: "c04-replace", Overlay: libOverlay("C04/c04.go"), Pkg: "libvore", Entry: "VerifC04", PanicOK: true,
				Args: func(tier string, l *Loaded) [][]int64 {
					return seqArgs(countOf(l, "libvore", "VerifC04Count"), tOf(tier, 3, 4), 1, 0, 0)
				}},
			{Name: "c04-symlit", Overlay: libOverlay("C04/c04.go"), Pkg: "libvore", Entry: "VerifC04", PanicOK: true,
				Args: func(tier string, l *Loaded) [][]int64 {
					return seqArgs(4, tOf(tier, 4, 5), 0, 2, 0)[1:3]
				}},
			{Name: "c04-amount", Overlay: libOverlay("C04/c04.go"), Pkg: "libvore", Entry: "VerifC04Amount",
				Args: func(tier string, l *Loaded) [][]int64 { return seqArgs(8) }},
			{Name: "c04-long", Overlay: libOverlay("C04/c04.go"), Pkg: "libvore", Entry: "VerifC04Long", PanicOK: true, MaxFailures: 3,
				Args: func(tier string, l *Loaded) [][]int64 {
					if tier == "thorough" {
						return [][]int64{{0, 40, 80, 40, 0, 0}, {1, 40, 80, 40, 0, 0}, {2, 24, 40, 14, 0, 0}, {3, 40, 80, 40, 0, 0}, {3, 40, 80, 40, 1, 1}, {0, 24, 40, 20, 1, 0}}
					}
					return [][]int64{{0, 64, 72, 36, 0, 0}, {1, 64, 72, 36, 0, 0}, {2, 30, 36, 12, 0, 0}, {3, 64, 72, 36, 0, 0}, {3, 64, 72, 36, 1, 1}, {0, 30, 36, 18, 1, 0}}
				}},
			{Name: "c04-twin", Overlay: libOverlay("C04/c04.go"), Pkg: "libvore", Entry: "VerifC04", Twin: true, PanicOK: true,
				Args: func(tier string, l *Loaded) [][]int64 { return [][]int64{{0, 2, 0, 0, 1}} }},
		}}
	properties["C05"] = &PropertySpec{ID: "C05",
		Rule:        "6 capture-bearing bodies x 15 with-lists mixing strings, captures, built-ins, undefined names and three transforms (harness/C05/c05.go) x ASCII texts of length 0..T (quick 3, thorough 4); 12 bodies whose capture is reached through a named pattern, an inline subroutine or a counted loop x 5 with-lists at T = 3 (thorough 4)",
		Assumptions: []string{"ASCII text", "the three fixed transforms (evaluation of arbitrary expressions is C11's subject)"},
		Groups: []JobGroup{
			{Name: "c05", Overlay: libOverlay("C05/c05.go"), Pkg: "libvore", Entry: "VerifC05", PanicOK: true,
				Args: func(tier string, l *Loaded) [][]int64 {
					return seqArgs(countOf(l, "libvore", "VerifC05Count"), tOf(tier, 3, 4), 0)
				}},
			{Name: "c05-defs", Overlay: libOverlay("C05/c05.go"), Pkg: "libvore", Entry: "VerifC05Defs", PanicOK: true,
				Args: func(tier string, l *Loaded) [][]int64 {
					return seqArgs(countOf(l, "libvore", "VerifC05DefsCount"), tOf(tier, 3, 4))
				}},
			{Name: "c05-twin", Overlay: libOverlay("C05/c05.go"), Pkg: "libvore", Entry: "VerifC05", Twin: true, PanicOK: true,
				Args: func(tier string, l *Loaded) [][]int64 { return [][]int64{{0, 2, 1}} }},
		}}
	allLib := libOverlay("C01/c01.go", "C02/c02.go", "C03/c03.go", "C09/c09.go", "C09/c09_files.go")
	properties["C09"] = &PropertySpec{ID: "C09",
		Rule:        "boundary programs (empty bodies/literals/captures, whole-*, multi-byte ranges, named loops, predicates and transforms incl. division, mixed-type variables) plus every C01/C02/C03 shape x texts of length 0..T (ASCII quick 3 / thorough 4; all bytes quick 2 / thorough 3) through Run; RunFiles over the model file system: 12 programs (single and several find/replace commands over the same file, definitions shared by commands) x contents of length 0..T (quick 2, thorough 3, incl. the empty file) x symbolic mode {NOTHING, NEW, OVERWRITE} x file named once or twice",
		Assumptions: []string{"process code terminates", "subroutines consume before recursing"},
		Groups: []JobGroup{
			{Name: "c09-ascii", Overlay: allLib, Pkg: "libvore", Entry: "VerifC09",
				Args: func(tier string, l *Loaded) [][]int64 {
					return seqArgs(countOf(l, "libvore", "VerifC09Count"), tOf(tier, 3, 4), 1)
				}},
			{Name: "c09-bytes", Overlay: allLib, Pkg: "libvore", Entry: "VerifC09",
				Args: func(tier string, l *Loaded) [][]int64 {
					return seqArgs(countOf(l, "libvore", "VerifC09Count"), tOf(tier, 2, 3), 0)
				}},
			{Name: "c09-files", Overlay: allLib, Pkg: "libvore", Entry: "VerifC09Files",
				Args: func(tier string, l *Loaded) [][]int64 {
					return seqArgs(countOf(l, "libvore", "VerifC09FilesCount"), tOf(tier, 2, 3))
				}},
		}}
	properties["C10"] = &PropertySpec{ID: "C10",
		Rule:        "family FN: 23 nullable bodies x 21 loop/alternation/subroutine/named-loop wrappers, plus not-in, negated classes, global patterns, whole-* and nullable regex loops, and guarded recursion (15 atom kinds incl. negated classes and lists x 5 forms of a subroutine that consumes one atom and may call itself) (harness/C10/c10.go) x ASCII texts of length 0..T (quick 3, thorough 4); unwinding budget 3e6 SSA steps per path (measured maximum is in evidence)",
		Assumptions: []string{"ASCII text", "a path that exhausts the unwinding budget is replayed natively under a 20 s timeout and only reported if the native run does not return"},
		Groups: []JobGroup{
			{Name: "c10", Overlay: libOverlay("C10/c10.go"), Pkg: "libvore", Entry: "VerifC10", BudgetIsViolation: true, Budget: 3_000_000, PanicOK: true,
				Args: func(tier string, l *Loaded) [][]int64 {
					return seqArgs(countOf(l, "libvore", "VerifC10Count"), tOf(tier, 3, 4))
				}},
		}}
	properties["C13"] = &PropertySpec{ID: "C13",
		Rule:        "18 capture-free bodies x 22 naming contexts (inline subroutine, global pattern referenced 1..3 times, prefix/suffix/loop/alternation contexts, nested globals) + 5 multi-command programs, x ASCII texts of length 0..3; Run repeated, bytecode frozen during Run (write footprint), source recompiled; 5 bodies that can match the empty string x 6 contexts with several references and required text after the last one; process code: two definitions sharing variable names (the 16 skeleton pairs of C12 x 6-expression menu) with one command each: the result of the combined source is the concatenation of the results of the commands alone, on the texts a, 1b (thorough also the empty text); the symbolic part is the choice of expressions",
		Assumptions: []string{"ASCII text", "capture-free bodies (name clashes are by design)"},
		Groups: []JobGroup{
			{Name: "c13", Overlay: libOverlay("C13/c13.go"), Pkg: "libvore", Entry: "VerifC13", PanicOK: true,
				Args: func(tier string, l *Loaded) [][]int64 {
					return seqArgs(countOf(l, "libvore", "VerifC13Count"), tOf(tier, 3, 3), 0)
				}},
			{Name: "c13-nullable", Overlay: libOverlay("C13/c13.go"), Pkg: "libvore", Entry: "VerifC13Null", PanicOK: true,
				Args: func(tier string, l *Loaded) [][]int64 {
					return seqArgs(countOf(l, "libvore", "VerifC13NullCount"), 3)
				}},
			{Name: "c13-procs", Overlay: map[string][]string{"libvore": {"common/lib.go", "C12/c12.go", "C13/c13_procs.go"}}, Pkg: "libvore", Entry: "VerifC13Procs", PanicOK: true, MaxFailures: 3,
				Args: func(tier string, l *Loaded) [][]int64 {
					return seqArgs(countOf(l, "libvore", "VerifC12PairCount"), tOf(tier, 1, 2))
				}},
			{Name: "c13-twin", Overlay: libOverlay("C13/c13.go"), Pkg: "libvore", Entry: "VerifC13", Twin: true, PanicOK: true,
				Args: func(tier string, l *Loaded) [][]int64 { return [][]int64{{0, 2, 1}, {300, 2, 1}} }},
		}}
	engOverlay := map[string][]string{"engine": {"C11/c11.go"}, "bytecode": {"C11/bytecode_shim.go"}}
	srcOverlay := map[string][]string{"libvore": {"common/lib.go", "C12/c12.go"}}
	kindPairs := func(mode int64, maxLen int64) [][]int64 {
		var out [][]int64
		for l := int64(0); l < 6; l++ {
			for r := int64(0); r < 6; r++ {
				out = append(out, []int64{l, r, mode, maxLen, 0})
			}
		}
		return out
	}
	nested := func(mode int64, tier string) [][]int64 {
		var out [][]int64
		if tier != "thorough" {
			// (kinds, shape) pairs whose queries stay below a second; the two string-x-number products under an
			// outer operator are thorough-only
			for _, t := range [][4]int64{{0, 1, 2, 1}, {1, 0, 2, 0}, {1, 0, 2, 1}, {2, 1, 0, 0}, {2, 1, 0, 1}, {1, 1, 1, 0}, {1, 1, 1, 1}, {0, 0, 0, 0}, {0, 0, 0, 1},
				{2, 2, 2, 0}, {2, 2, 2, 1}, {1, 2, 0, 0}, {1, 2, 0, 1}, {2, 0, 1, 0}, {4, 3, 5, 0}, {4, 3, 5, 1}} {
				out = append(out, []int64{t[0], t[1], t[2], t[3], mode})
			}
			return out
		}
		ks := []int64{0, 1, 2}
		for _, a := range ks {
			for _, b := range ks {
				for _, c := range ks {
					out = append(out, []int64{a, b, c, 0, mode}, []int64{a, b, c, 1, mode})
				}
			}
		}
		for _, t := range [][3]int64{{3, 4, 5}, {4, 3, 5}, {5, 4, 3}, {4, 4, 3}, {3, 3, 4}} {
			out = append(out, []int64{t[0], t[1], t[2], 0, mode}, []int64{t[0], t[1], t[2], 1, mode})
		}
		return out
	}
	unary := func(mode int64, maxLen int64) [][]int64 {
		var out [][]int64
		for k := int64(0); k < 6; k++ {
			out = append(out, []int64{k, mode, maxLen})
		}
		return out
	}
	properties["C11"] = &PropertySpec{ID: "C11",
		Rule:        "real executeExpression vs the documented table: 13 binary operators (symbolic choice) x 6x6 operand kinds (string/number/bool literal or variable) with symbolic values: strings of length 0..2 (thorough 3) over ASCII, full 64-bit ints, bools; unary not/head/tail; depth-2 trees of both shapes with symbolic operators; precedence/associativity of the real Pratt parser for 1..3 (thorough 4) symbolic operators, minimal and full parentheses; source level (exported entry points only): L op R and both parenthesised shapes of three operands written in a transform, compiled with Compile and evaluated by Run on a symbolic text of 1..2 (thorough 3) bytes over digits, '-', a, b, blank, operands head/tail of the match as string, as parsed number, as comparison, and matchLength; symbolic operator",
		Assumptions: []string{"numbers rendered as decimal strings or parsed from strings are assumed in [-999,999] (conversion loops)", "division/modulo by zero excluded here (C09)", "expressions mixing ==/!= with </>/<=/>= are assumed away in the precedence check (statement silent)"},
		Groups: []JobGroup{
			{Name: "c11-binop", Overlay: engOverlay, Pkg: "engine", OptionalLoad: "drives the unexported evaluator and checker entry points directly; the source-level groups decide the property through Compile and Run", Entry: "VerifC11Binop",
				Args: func(tier string, l *Loaded) [][]int64 { return kindPairs(11, tOf(tier, 2, 3)) }},
			{Name: "c11-unary", Overlay: engOverlay, Pkg: "engine", OptionalLoad: "drives the unexported evaluator and checker entry points directly; the source-level groups decide the property through Compile and Run", Entry: "VerifC11Unary",
				Args: func(tier string, l *Loaded) [][]int64 { return unary(11, tOf(tier, 2, 3)) }},
			{Name: "c11-nested", Overlay: engOverlay, Pkg: "engine", OptionalLoad: "drives the unexported evaluator and checker entry points directly; the source-level groups decide the property through Compile and Run", Entry: "VerifC11Nested",
				Args: func(tier string, l *Loaded) [][]int64 { return nested(11, tier) }},
			{Name: "c11-prec", Overlay: srcOverlay, Pkg: "libvore", Entry: "VerifC11Prec",
				Args: func(tier string, l *Loaded) [][]int64 {
					if tier == "thorough" {
						return [][]int64{{1, 0}, {2, 0}, {3, 0}, {4, 0}}
					}
					return [][]int64{{1, 0}, {2, 0}, {3, 0}}
				}},
			{Name: "c11-source", Overlay: map[string][]string{"libvore": {"common/lib.go", "C11/c11_src.go"}}, Pkg: "libvore", Entry: "VerifC11Src",
				Args: func(tier string, l *Loaded) [][]int64 {
					var out [][]int64
					for lk := int64(0); lk < 4; lk++ {
						for rk := int64(0); rk < 4; rk++ {
							out = append(out, []int64{lk, rk, tOf(tier, 2, 3)})
						}
					}
					return out
				}},
			{Name: "c11-source-nested", Overlay: map[string][]string{"libvore": {"common/lib.go", "C11/c11_src.go"}}, Pkg: "libvore", Entry: "VerifC11SrcNested",
				Args: func(tier string, l *Loaded) [][]int64 {
					var out [][]int64
					for lk := int64(0); lk < 3; lk++ {
						for rk := int64(0); rk < 3; rk++ {
							out = append(out, []int64{lk, rk, 0}, []int64{lk, rk, 1})
						}
					}
					return out
				}},
			{Name: "c11-twin", Overlay: engOverlay, Pkg: "engine", OptionalLoad: "vacuity twin of the white-box groups", Entry: "VerifC11Binop", Twin: true,
				Args: func(tier string, l *Loaded) [][]int64 { return [][]int64{{1, 1, 11, 1, 1}} }},
		}}
	properties["C12"] = &PropertySpec{ID: "C12",
		Rule:        "real checker vs the documented typing table: all 13 binary operators x 6x6 operand kinds, unary operators x 6 kinds, depth-2 trees with symbolic operators (accept iff table, inferred type = table type, accepted code evaluates to that type); 18 statement skeletons x 23-expression menu per hole (symbolic choice) in transform and predicate context through the real lexer/parser/checker/Compile, accepted programs run on the VM; two definitions in one source (4 assigning x 4 using skeletons, 8-expression menu per hole, second definition transform or predicate, both orders): accepted exactly when each definition is accepted alone",
		Assumptions: []string{"each variable keeps one type (programs that re-type a variable are assumed away, as the property states)", "every loop of the statement skeletons terminates"},
		Groups: []JobGroup{
			{Name: "c12-binop", Overlay: engOverlay, Pkg: "engine", OptionalLoad: "drives the unexported checker and evaluator entry points directly; the statement-level groups decide the property through Compile", Entry: "VerifC11Binop",
				Args: func(tier string, l *Loaded) [][]int64 { return kindPairs(12, tOf(tier, 1, 2)) }},
			{Name: "c12-unary", Overlay: engOverlay, Pkg: "engine", OptionalLoad: "drives the unexported checker and evaluator entry points directly; the statement-level groups decide the property through Compile", Entry: "VerifC11Unary",
				Args: func(tier string, l *Loaded) [][]int64 { return unary(12, tOf(tier, 1, 2)) }},
			{Name: "c12-nested", Overlay: engOverlay, Pkg: "engine", OptionalLoad: "drives the unexported checker and evaluator entry points directly; the statement-level groups decide the property through Compile", Entry: "VerifC11Nested",
				Args: func(tier string, l *Loaded) [][]int64 { return nested(12, tier) }},
			{Name: "c12-stmt", Overlay: srcOverlay, Pkg: "libvore", Entry: "VerifC12Stmt",
				Args: func(tier string, l *Loaded) [][]int64 { return seqArgs(countOf(l, "libvore", "VerifC12StmtCount"), 0) }},
			{Name: "c12-pair", Overlay: srcOverlay, Pkg: "libvore", Entry: "VerifC12Pair",
				Args: func(tier string, l *Loaded) [][]int64 { return seqArgs(countOf(l, "libvore", "VerifC12PairCount")) }},
			{Name: "c12-twin", Overlay: srcOverlay, Pkg: "libvore", Entry: "VerifC12Stmt", Twin: true,
				Args: func(tier string, l *Loaded) [][]int64 { return [][]int64{{0, 1}} }},
		}}
	astOv := func(files ...string) map[string][]string { return map[string][]string{"ast": files} }
	prefixJobs := func(l *Loaded, countFn string, n int64) [][]int64 {
		var out [][]int64
		for i := 0; i < countOf(l, "ast", countFn); i++ {
			out = append(out, []int64{int64(i), n})
		}
		return out
	}
	properties["C08"] = &PropertySpec{ID: "C08",
		Rule:        "lexer: all byte strings of length <= 2 (thorough 3) over all 256 values, plus 15 corpus prefixes that end inside strings/escapes/comments/regex literals/operators followed by 2 (thorough 3) arbitrary bytes; parser: token lists of 4 (thorough 5) tokens with symbolic TokenType over all token types + EOF, and 36 concrete token prefixes (every construct of the grammar cut at every interesting point) followed by 2 (thorough 3) symbolic tokens; regex sub-parser: bodies of <= 3 (thorough 4) arbitrary bytes and 24 prefixes + 2 (thorough 3) bytes; accepted ASTs are walked for holes and fed to the real GenerateBytecode (program or error, no panic); process code through Compile: 7 statement skeletons (assignment chains between variables inside loops, nested loops and conditionals) x symbolic choice of every variable among two user variables and built-ins of different types / literals, transform and predicate context; unwinding budget 2e6 SSA steps (hang = violation after native replay under timeout)",
		Assumptions: []string{"token lexemes are the representative \"1\" (numbers, identifiers, strings)", "sources longer than the bounds unless they share a corpus prefix"},
		Groups: []JobGroup{
			{Name: "c08-lex", Overlay: astOv("C08/c08_lex.go"), Pkg: "ast", Entry: "VerifC08Lex", BudgetIsViolation: true, Budget: 2_000_000,
				Args: func(tier string, l *Loaded) [][]int64 {
					if tier == "thorough" {
						return [][]int64{{0}, {1}, {2}, {3}}
					}
					return [][]int64{{0}, {1}, {2}}
				}},
			{Name: "c08-lex-corpus", Overlay: astOv("C08/c08_lex.go"), Pkg: "ast", Entry: "VerifC08LexCorpus", BudgetIsViolation: true, Budget: 2_000_000,
				Args: func(tier string, l *Loaded) [][]int64 {
					out := prefixJobs(l, "VerifC08LexCorpusCount", 0)
					out = append(out, prefixJobs(l, "VerifC08LexCorpusCount", 1)...)
					out = append(out, prefixJobs(l, "VerifC08LexCorpusCount", 2)...)
					if tier == "thorough" {
						out = append(out, prefixJobs(l, "VerifC08LexCorpusCount", 3)...)
					}
					return out
				}},
			{Name: "c08-parse", Overlay: astOv("C08/c08_parse.go"), Pkg: "ast", Entry: "VerifC08Parse", BudgetIsViolation: true, Budget: 2_000_000,
				Args: func(tier string, l *Loaded) [][]int64 {
					out := [][]int64{{0, 1}, {0, 2}, {0, 3}, {0, tOf(tier, 4, 5)}}
					for n := int64(0); n <= tOf(tier, 2, 3); n++ {
						out = append(out, prefixJobs(l, "VerifC08ParsePrefixCount", n)[1:]...)
					}
					return out
				}},
			{Name: "c08-gen", Overlay: map[string][]string{"ast": {"C08/c08_parse.go", "C08/ast_shim.go"}, "libvore": {"common/lib.go", "C08/c08_gen.go"}}, Pkg: "libvore", Entry: "VerifC08Gen", BudgetIsViolation: true, Budget: 2_000_000,
				Args: func(tier string, l *Loaded) [][]int64 {
					var out [][]int64
					for i := 0; i < countOf(l, "libvore", "VerifC08GenCount"); i++ {
						for n := int64(0); n <= tOf(tier, 2, 3); n++ {
							out = append(out, []int64{int64(i), n})
						}
					}
					return out
				}},
			{Name: "c08-proc", Overlay: map[string][]string{"libvore": {"common/lib.go", "C08/c08_proc.go"}}, Pkg: "libvore", Entry: "VerifC08Proc", BudgetIsViolation: true, Budget: 2_000_000, MaxFailures: 3,
				Args: func(tier string, l *Loaded) [][]int64 { return seqArgs(countOf(l, "libvore", "VerifC08ProcCount")) }},
			{Name: "c08-regex", Overlay: astOv("C08/c08_parse.go"), Pkg: "ast", Entry: "VerifC08Regex", BudgetIsViolation: true, Budget: 2_000_000,
				Args: func(tier string, l *Loaded) [][]int64 {
					out := [][]int64{{0, 1}, {0, 2}, {0, 3}}
					if tier == "thorough" {
						out = append(out, []int64{0, 4})
					}
					for n := int64(0); n <= tOf(tier, 2, 3); n++ {
						out = append(out, prefixJobs(l, "VerifC08RegexPrefixCount", n)[1:]...)
					}
					return out
				}},
		}}
	properties["C16"] = &PropertySpec{ID: "C16",
		Rule:        "real lexer on quote + n arbitrary bytes in 0x01..0x7f + quote for n = 0..4 (thorough 5), both quote styles (symbolic), and on \\x + n bytes for n = 0..3 (thorough 4); API level: Compile(find all <literal>) with body of 1..3 (thorough 4) arbitrary bytes run on a symbolic text of the spelled length (matches iff text == spelled bytes); expected bytes from refUnescape (documented escapes; \\xHH claimed for HH < 0x80); literals longer than the lexer's read buffer: k letters + 3 arbitrary bytes + a letter with k in [4090,4095] (thorough [4088,4097], [8184,8193], [2040,2049]), so that every 3-byte spelling straddles the buffer boundary",
		Assumptions: []string{"ASCII literal text (0x01..0x7f)", "\\xHH with HH >= 0x80 or HH = 00 is outside the claim"},
		Groups: []JobGroup{
			{Name: "c16-lex", Overlay: astOv("C16/unescape.go", "C16/c16_lex.go"), Pkg: "ast", Entry: "VerifC16Lex",
				Args: func(tier string, l *Loaded) [][]int64 {
					out := [][]int64{{0, 0}, {1, 0}, {2, 0}, {3, 0}, {4, 0}}
					if tier == "thorough" {
						out = append(out, []int64{5, 0})
					}
					return out
				}},
			{Name: "c16-lex-x", Overlay: astOv("C16/unescape.go", "C16/c16_lex.go"), Pkg: "ast", Entry: "VerifC16LexPrefixed",
				Args: func(tier string, l *Loaded) [][]int64 {
					out := [][]int64{{0}, {1}, {2}, {3}}
					if tier == "thorough" {
						out = append(out, []int64{4})
					}
					return out
				}},
			{Name: "c16-match", Overlay: map[string][]string{"libvore": {"common/lib.go", "C16/unescape.go", "C16/c16_match.go"}}, Pkg: "libvore", Entry: "VerifC16Match",
				Args: func(tier string, l *Loaded) [][]int64 {
					out := [][]int64{{1, 0}, {2, 0}, {3, 0}}
					if tier == "thorough" {
						out = append(out, []int64{4, 0})
					}
					return out
				}},
			{Name: "c16-lex-long", Overlay: astOv("C16/unescape.go", "C16/c16_lex.go"), Pkg: "ast", Entry: "VerifC16LexLong", MaxFailures: 3,
				Args: func(tier string, l *Loaded) [][]int64 {
					if tier == "thorough" {
						return [][]int64{{4088, 10}, {8184, 10}, {2040, 10}}
					}
					return [][]int64{{4090, 6}}
				}},
			{Name: "c16-twin", Overlay: astOv("C16/unescape.go", "C16/c16_lex.go"), Pkg: "ast", Entry: "VerifC16Lex", Twin: true,
				Args: func(tier string, l *Loaded) [][]int64 { return [][]int64{{1, 1}} }},
		}}
	filesOv := func(files ...string) map[string][]string { return map[string][]string{"files": files} }
	properties["C06"] = &PropertySpec{ID: "C06",
		Rule:        "real RunFiles([f], mode, false) over the model file system: 14 programs (replacements longer/shorter/empty, adjacent and zero matches, captures, transforms, top/skip, find commands) x file contents of length 1..T (quick 3, thorough 5, ASCII) x symbolic mode in {NOTHING, NEW, OVERWRITE} x stale f.vored present/absent; expected text = splice of the matches the same run reported; large files a^g1 b a^g2 [b a^2049] with g1, g2 symbolic among {0,1,2047,2048,2049,4095,4096,4097} (half / whole read buffer), replacement '' or 'cc', modes NEW and OVERWRITE: exact splice",
		Assumptions: []string{"POSIX/io contract of the modelled os calls (Read/ReadAt/Write/Seek/Truncate/O_TRUNC/O_CREATE) — the kernel is only exercised by native replay of counterexamples", "CONFIRM mode and processFilenames=true are outside the property", "files larger than T (window arithmetic for large files is C07's lemma)"},
		Groups: []JobGroup{
			{Name: "c06", Overlay: libOverlay("C06/c06.go"), Pkg: "libvore", Entry: "VerifC06", PanicOK: true,
				Args: func(tier string, l *Loaded) [][]int64 {
					return seqArgs(countOf(l, "libvore", "VerifC06Count"), tOf(tier, 3, 5), 0)
				}},
			{Name: "c06-large", Overlay: libOverlay("C06/c06.go"), Pkg: "libvore", Entry: "VerifC06Large", PanicOK: true, MaxFailures: 3,
				Args: func(tier string, l *Loaded) [][]int64 { return [][]int64{{0, 0}, {0, 1}, {1, 0}, {1, 1}} }},
			{Name: "c06-twin", Overlay: libOverlay("C06/c06.go"), Pkg: "libvore", Entry: "VerifC06", Twin: true, PanicOK: true,
				Args: func(tier string, l *Loaded) [][]int64 { return [][]int64{{0, 1, 1}} }},
		}}
	properties["C07"] = &PropertySpec{ID: "C07",
		Rule:        "(1) inductive step on the real BufferedFile.Seek/Read from an arbitrary window state satisfying the representation invariant, abstract file of symbolic size F in [1,2^40) whose byte at offset i is byte(i): Seek(off,SeekStart) for every off in [0,F], Seek(0,SeekCurrent), Read(p) with len(p) in 1..3 (thorough 4) inside the file; invariant, window-contains-offset, buffer content (Skolem position) and returned bytes asserted; (1b) the same step with window-relative quantities restricted to boundary classes (offset in window {0,1,2047,2048,4094,4095,4096} x bytes after the window {0,1,3,2047,2048,2049,5000}, short files {1,2,100,4095}; absolute window position symbolic; read lengths 1..6, thorough 8) on an ordinary 4096-cell buffer, which also executes implementations that use copy()/sub-slices; (2) NewBufferedFile establishes the invariant for every F in [0,2^40); files.Reader Seek+Read / ReadAt over BufferedFile return file[off:off+n] or \"\" (n <= 3), plus a backward read; (3) whole pipeline RunFiles vs Run on the same bytes for 24 programs (5 with several find/replace commands over the same file) x contents of length 0..T (quick 3, thorough 5; ASCII and all bytes) x file named once or twice x mode NOTHING or NEW; (4) one engine read of n bytes (literal of n letters / back-reference to a capture of n letters) for every n in 1..300 (thorough 1100) and n in {511..513, 1023..1025, 2047..2049, 4095..4097, 5000, 8193} (captures: n in 1..64 (thorough 130) and {127..129, 255..257, 511..513}), with 0..2 bytes in front: RunFiles vs Run",
		Assumptions: []string{"the kernel implements pread/read as documented (stub contract)", "file content function byte(i): a wrong offset that differs by a multiple of 256 is not visible in the data (it is visible in the offset assertions)", "reads longer than 4 bytes in one call are covered through the per-iteration argument"},
		Groups: []JobGroup{
			{Name: "c07-run", Overlay: libOverlay("C06/c06.go"), Pkg: "libvore", Entry: "VerifC07Run", PanicOK: false,
				Args: func(tier string, l *Loaded) [][]int64 {
					out := seqArgs(countOf(l, "libvore", "VerifC07RunCount"), tOf(tier, 3, 5), 1, 0)
					return append(out, seqArgs(countOf(l, "libvore", "VerifC07RunCount"), tOf(tier, 2, 3), 0, 0)...)
				}},
			{Name: "c07-run-twin", Overlay: libOverlay("C06/c06.go"), Pkg: "libvore", Entry: "VerifC07Run", Twin: true,
				Args: func(tier string, l *Loaded) [][]int64 { return [][]int64{{0, 1, 1, 1}} }},
			{Name: "c07-long", Overlay: libOverlay("C06/c06.go"), Pkg: "libvore", Entry: "VerifC07Long", MaxFailures: 3, Budget: 300_000_000,
				Args: func(tier string, l *Loaded) [][]int64 {
					return [][]int64{{0, tOf(tier, 300, 1100)}, {1, tOf(tier, 64, 130)}}
				}},
			{Name: "c07-step-classes", Overlay: filesOv("C07/c07_step.go"), Pkg: "files", Entry: "VerifC07StepClasses", OptionalLoad: "constructs BufferedFile / Reader states through their unexported fields; the public-API groups c07-run and c07-long decide the property", Lemma: true,
				Args: func(tier string, l *Loaded) [][]int64 {
					var out [][]int64
					for c := 0; c < countOf(l, "files", "VerifC07StepClassesCount"); c++ {
						out = append(out, []int64{int64(c), 0, 0}, []int64{int64(c), 1, tOf(tier, 6, 8)})
					}
					return out
				}},
			{Name: "c07-step", Overlay: filesOv("C07/c07_step.go"), Pkg: "files", Entry: "VerifC07Step", OptionalLoad: "constructs BufferedFile / Reader states through their unexported fields; the public-API groups c07-run and c07-long decide the property", Lemma: true, OptionalUnsupported: "lazily defined array",
				Args: func(tier string, l *Loaded) [][]int64 {
					k := tOf(tier, 3, 4)
					return [][]int64{{0, k, 0}, {1, k, 0}, {2, k, 0}}
				}},
			{Name: "c07-new", Overlay: filesOv("C07/c07_step.go"), Pkg: "files", Entry: "VerifC07New", OptionalLoad: "constructs BufferedFile / Reader states through their unexported fields; the public-API groups c07-run and c07-long decide the property", Lemma: true, OptionalUnsupported: "lazily defined array",
				Args: func(tier string, l *Loaded) [][]int64 { return [][]int64{{}} }},
			{Name: "c07-reader", Overlay: filesOv("C07/c07_step.go"), Pkg: "files", Entry: "VerifC07Reader", OptionalLoad: "constructs BufferedFile / Reader states through their unexported fields; the public-API groups c07-run and c07-long decide the property", Lemma: true, OptionalUnsupported: "lazily defined array",
				Args: func(tier string, l *Loaded) [][]int64 { return [][]int64{{0, 3}, {1, 3}} }},
			{Name: "c07-twin", Overlay: filesOv("C07/c07_step.go"), Pkg: "files", Entry: "VerifC07Step", OptionalLoad: "vacuity twin of the white-box lemma groups", Twin: true,
				Args: func(tier string, l *Loaded) [][]int64 { return [][]int64{{0, 1, 1}} }},
		}}
	properties["C20"] = &PropertySpec{ID: "C20",
		Rule:        "(1) real pathMatches vs the recursive definition of '*': patterns of length 0..4 (thorough 5) and names of length 0..5 over all printable ASCII except '/', every byte symbolic, and the same through the exported entry points (one file with a symbolic name of length 1..4, pattern of length 1..3; thorough 5 / 4); (2) real ParsePath(p).GetFileList(\".\") over the model file system: trees of depth <= 2 with up to 2 entries per directory, symbolic 1-byte names over {a,b}, symbolic is-directory bits, patterns of 1..2 segments of 1..2 bytes over {a,b,*}; result compared as a set, no duplicates, no directories; (3) trees of depth 3 with fixed names per level (aa, ab / a, b / a [thorough: a, b]) and symbolic kind of every entry (absent, file, directory with symbolic content), patterns of 1..3 segments chosen symbolically among literal and starred spellings that match one or both names of a level, written relative or as an absolute path below the working directory (symbolic)",
		Assumptions: []string{"directory segments made only of stars and ./.. segments are excluded (as the property states)", "absolute patterns are explored only below the working directory", "ReadDir failing is modelled as the code treats it (empty)"},
		Groups: []JobGroup{
			{Name: "c20-seg", Overlay: filesOv("C20/c20.go", "C20/c20_seg.go"), Pkg: "files", Entry: "VerifC20Seg", OptionalLoad: "calls the unexported segment matcher directly; c20-seg-fs makes the same comparison through ParsePath/GetFileList",
				Args: func(tier string, l *Loaded) [][]int64 {
					var out [][]int64
					for p := int64(0); p <= tOf(tier, 4, 5); p++ {
						for t := int64(0); t <= tOf(tier, 5, 5); t++ {
							out = append(out, []int64{p, t, 0})
						}
					}
					return out
				}},
			{Name: "c20-seg-fs", Overlay: filesOv("C20/c20.go"), Pkg: "files", Entry: "VerifC20SegFS",
				Args: func(tier string, l *Loaded) [][]int64 {
					var out [][]int64
					for p := int64(1); p <= tOf(tier, 3, 4); p++ {
						for t := int64(1); t <= tOf(tier, 4, 5); t++ {
							out = append(out, []int64{p, t})
						}
					}
					return out
				}},
			{Name: "c20-tree", Overlay: filesOv("C20/c20.go", "C20/c20_tree.go"), Pkg: "files", Entry: "VerifC20Tree",
				Args: func(tier string, l *Loaded) [][]int64 { return [][]int64{{1, 0}, {2, 0}} }},
			{Name: "c20-deep", Overlay: filesOv("C20/c20.go", "C20/c20_tree.go", "C20/c20_deep.go"), Pkg: "files", Entry: "VerifC20Deep",
				Args: func(tier string, l *Loaded) [][]int64 {
					if tier == "thorough" {
						return [][]int64{{3, 1}, {2, 1}, {1, 1}}
					}
					return [][]int64{{3, 0}, {2, 0}, {1, 0}}
				}},
			{Name: "c20-twin", Overlay: filesOv("C20/c20.go", "C20/c20_seg.go"), Pkg: "files", Entry: "VerifC20Seg", OptionalLoad: "vacuity twin of the white-box group", Twin: true,
				Args: func(tier string, l *Loaded) [][]int64 { return [][]int64{{1, 1, 1}} }},
		}}
	properties["C14"] = &PropertySpec{ID: "C14",
		Rule:        "110 regexes of the supported subset (every construct alone, every quantifier incl. lazy forms on literal/class/group atoms, plain/non-capturing/named groups nested to depth 2, alternation of atoms or groups alone and under quantifiers, ^ $ anchors, numbered and named back-references incl. nested groups and adjacent variable-length groups whose division of the text is decided by a back-reference, bounded quantifiers nested in bounded groups) x ASCII texts of length 0..T (quick 4, thorough 5) without \\r \\f \\v; spans and group bindings compared with an independent backtracking regex engine written in the harness",
		Assumptions: []string{"texts contain no \\r, \\f, \\v (engines differ on \\s for \\v; the property excludes \\r and \\f)", "repeated bodies that match the empty string and references to unset/empty groups are assumed away", "alternatives are single atoms or groups spanning the enclosing group (ab|cd is outside the stated subset)", "\\w \\W \\b \\B, look-around, empty classes are outside the subset"},
		Groups: []JobGroup{
			{Name: "c14", Overlay: libOverlay("C14/c14.go"), Pkg: "libvore", Entry: "VerifC14", PanicOK: true,
				Args: func(tier string, l *Loaded) [][]int64 {
					return seqArgs(countOf(l, "libvore", "VerifC14Count"), tOf(tier, 4, 5), 0)
				}},
			{Name: "c14-twin", Overlay: libOverlay("C14/c14.go"), Pkg: "libvore", Entry: "VerifC14", Twin: true, PanicOK: true,
				Args: func(tier string, l *Loaded) [][]int64 { return [][]int64{{0, 2, 1}} }},
		}}
	c15Ov := astOv("C15/corpus.go", "C15/c15.go")
	properties["C15"] = &PropertySpec{ID: "C15",
		Rule:        "48 corpus programs covering every construct x every gap between two tokens (symbolic gap index) x {nothing, blank run, line comment, blank+block comment+blank, two comments} at token level through the real parser (accepted, identical syntax tree); at source level through the real lexer with blank runs from {space, tab+newline, CRLF} and line/block comments with symbolic bodies of 0..2 (thorough 3) arbitrary ASCII bytes (token sequence modulo WS/COMMENT unchanged); 52 keywords x all letter-case variants (symbolic case bit per letter); fillers longer than the lexer's read buffer: blank runs, line comments and block comments of every length in [4084,4111] (thorough also [8180,8207] and [2040,2055]) in every gap of 2 (thorough 6) corpus programs",
		Assumptions: []string{"one altered gap per run (the parser passes only a token index between its functions)", "comments inside string and regex literals are not gaps"},
		Groups: []JobGroup{
			{Name: "c15-tokens", Overlay: c15Ov, Pkg: "ast", Entry: "VerifC15Tokens",
				Args: func(tier string, l *Loaded) [][]int64 { return seqArgs(countOf(l, "ast", "VerifC15Count"), 0) }},
			{Name: "c15-source", Overlay: c15Ov, Pkg: "ast", Entry: "VerifC15Source",
				Args: func(tier string, l *Loaded) [][]int64 {
					n := countOf(l, "ast", "VerifC15Count")
					out := seqArgs(n, 0)
					if tier == "thorough" {
						out = append(out, seqArgs(n, 1)...)
						out = append(out, seqArgs(n, 2)...)
						out = append(out, seqArgs(n, 3)[:6]...)
					} else {
						out = append(out, seqArgs(n, 1)[:12]...)
						out = append(out, seqArgs(n, 2)[:3]...)
					}
					return out
				}},
			{Name: "c15-keywords", Overlay: c15Ov, Pkg: "ast", Entry: "VerifC15Keyword",
				Args: func(tier string, l *Loaded) [][]int64 { return seqArgs(countOf(l, "ast", "VerifC15KeywordCount")) }},
			{Name: "c15-long", Overlay: c15Ov, Pkg: "ast", Entry: "VerifC15Long", MaxFailures: 3,
				Args: func(tier string, l *Loaded) [][]int64 {
					var out [][]int64
					progs := []int64{0, 1}
					if tier == "thorough" {
						progs = []int64{0, 1, 2, 3, 4, 5}
					}
					for _, p := range progs {
						for kind := int64(0); kind < 3; kind++ {
							out = append(out, []int64{p, kind, 4084, 28})
							if tier == "thorough" {
								out = append(out, []int64{p, kind, 8180, 28}, []int64{p, kind, 2040, 16})
							}
						}
					}
					return out
				}},
			{Name: "c15-twin", Overlay: c15Ov, Pkg: "ast", Entry: "VerifC15Tokens", Twin: true,
				Args: func(tier string, l *Loaded) [][]int64 { return [][]int64{{0, 1}} }},
		}}
	properties["C17"] = &PropertySpec{ID: "C17",
		Rule:        "11 programs (find/replace incl. empty replacements, flat captures, named loops nested to depth 2, zero matches, multi-command) x ASCII texts of length 0..2 (thorough: two programs at 3) over ALL 128 values incl. quotes, backslashes and control characters: the real Json/FormattedJson/MarshalJSON code renders through the abstract encoding/json codec; both renderings are parsed by the harness' JSON parser, compared as documents and against the in-memory matches field by field (keys exactly as documented, replacement iff replace, nested variables); texts glued from 2 (thorough 3) symbolically chosen fragments of JSON syntax and escape sequences (backslash, quote, u003c, u0026, u2028, control characters, brackets ...: 24 fragments) for 4 programs",
		Assumptions: []string{"encoding/json is replaced by a type-directed codec stub honouring the json.Marshaler contract (calls the repository's MarshalJSON methods); byte-level escaping, invalid UTF-8 and non-ASCII handling of the real encoder are outside the claim (exercised only when a counterexample is replayed natively)", "ASCII texts"},
		Groups: []JobGroup{
			{Name: "c17", Overlay: libOverlay("common/jsonparse.go", "C17/c17.go"), Pkg: "libvore", Entry: "VerifC17",
				Args: func(tier string, l *Loaded) [][]int64 {
					out := seqArgs(countOf(l, "libvore", "VerifC17Count"), 2, 0)
					if tier == "thorough" {
						out = append(out, []int64{0, 3, 0}, []int64{3, 3, 0})
					}
					return out
				}},
			{Name: "c17-fragments", Overlay: libOverlay("common/jsonparse.go", "C17/c17.go"), Pkg: "libvore", Entry: "VerifC17Fragments", MaxFailures: 3,
				Args: func(tier string, l *Loaded) [][]int64 {
					var out [][]int64
					for _, p := range []int64{0, 2, 4, 7} {
						out = append(out, []int64{p, 2})
						if tier == "thorough" {
							out = append(out, []int64{p, 3})
						}
					}
					return out
				}},
			{Name: "c17-twin", Overlay: libOverlay("common/jsonparse.go", "C17/c17.go"), Pkg: "libvore", Entry: "VerifC17", Twin: true,
				Args: func(tier string, l *Loaded) [][]int64 { return [][]int64{{0, 1, 1}} }},
		}}
	properties["C18"] = &PropertySpec{ID: "C18",
		Rule:        "the real main() under the flag/exit/stdout/file-system model: programs {-com find, -com replace, -com replace with an empty replacement, -com find all any (the JSON carries arbitrary printable characters), -com that fails to compile, -src file, neither, both} x -files {one file, glob matching two, glob matching none, absent} x -replace-mode {absent, NEW, NOTHING, OVERWRITE, unknown} x symbolic booleans -json, -formatted-json, -no-output, -json-file given, -formatted-json-file given x file content of 1..2 symbolic printable bytes; exit status, stdout (exactly one JSON document equal to the library result), JSON files, per-mode file effects, invalid invocations change nothing",
		Assumptions: []string{"argv parsing by the flag package, process exit plumbing and stdout buffering are modelled (flag values are supplied, os.Exit/log.Fatal recorded, fmt.Print* captured); the built binary is executed only when a counterexample is replayed", "-debug, -filenames and -profile are not explored"},
		Groups: []JobGroup{
			{Name: "c18", Overlay: map[string][]string{"main": {"common/jsonparse.go", "C18/c18.go"}}, Pkg: "main", Entry: "VerifC18",
				Args: func(tier string, l *Loaded) [][]int64 {
					var out [][]int64
					for p := int64(0); p < 8; p++ {
						for f := int64(0); f < 4; f++ {
							for md := int64(0); md < 5; md++ {
								out = append(out, []int64{p, f, md, 0})
							}
						}
					}
					return out
				}},
			{Name: "c18-twin", Overlay: map[string][]string{"main": {"common/jsonparse.go", "C18/c18.go"}}, Pkg: "main", Entry: "VerifC18", Twin: true,
				Args: func(tier string, l *Loaded) [][]int64 { return [][]int64{{0, 0, 0, 1}} }},
		}}
	properties["C19"] = &PropertySpec{ID: "C19",
		Rule:        "footprint / lockset analysis over every explored path of (a) Compile on 8 sources (with and without regex groups, global patterns, transforms, named loops) followed by 0..1 (thorough 2) arbitrary printable bytes and (b) Run of the 8 compiled programs on ASCII texts of length 0..T (quick 2, thorough 3) with the shared compiled program frozen: no write into memory reachable from the shared program, and every package-level variable of the repository that is written, every heap object or map created during package initialisation and every object a call stores into such shared memory has one common mutex held at all of its accesses (accesses through sync/atomic and inside sync.Once are synchronised by construction); libvore starts no goroutines, so empty write footprints make every interleaving of any number of calls equivalent to a sequential order; (c) two-thread symbolic scheduler: Compile(A) || Compile(B) for all 36 unordered pairs of the 8 sources, and Run(t1) || (Run(t2); Compile) on a shared program with symbolic texts of length 0..1 (thorough 2): a symbolic boolean before every mutex acquisition, after every release, before every atomic operation and for the starting thread makes the solver/explorer cover every interleaving of the synchronisation points with at most 2 preemptions (switches forced by a blocked or finished call are free), each (call, synchronisation call site) offering a preemption the first 2 times it is reached; each call must return what it returns alone; deadlocks are failures",
		Assumptions: []string{"two concurrent calls in the scheduler groups (a conflict among three or more calls that no pair exhibits is outside the claim)", "context switches only at synchronisation points: sufficient for data-race-free code, and data races are what the lockset groups report", "math/rand's global source is synchronised by the standard library (stub contract)", "the Go memory model below whole loads/stores and races inside the runtime are outside the claim", "counterexamples are confirmed natively by hammering the API from 8 goroutines under the race detector"},
		Groups: []JobGroup{
			{Name: "c19-compile", Overlay: libOverlay("C19/c19.go"), Pkg: "libvore", Entry: "VerifC19Compile", Race: true,
				Args: func(tier string, l *Loaded) [][]int64 {
					n := countOf(l, "libvore", "VerifC19Count")
					out := seqArgs(n, 0)
					out = append(out, seqArgs(n, 1)...)
					if tier == "thorough" {
						out = append(out, seqArgs(n, 2)...)
					}
					return out
				}},
			{Name: "c19-run", Overlay: libOverlay("C19/c19.go"), Pkg: "libvore", Entry: "VerifC19Run", Race: true,
				Args: func(tier string, l *Loaded) [][]int64 {
					return seqArgs(countOf(l, "libvore", "VerifC19Count"), tOf(tier, 2, 3))
				}},
			{Name: "c19-par-compile", Overlay: libOverlay("C19/c19.go"), Pkg: "libvore", Entry: "VerifC19ParCompile", Race: true, MaxFailures: 2,
				Args: func(tier string, l *Loaded) [][]int64 {
					n := countOf(l, "libvore", "VerifC19Count")
					var out [][]int64
					for i := 0; i < n; i++ {
						for j := i; j < n; j++ {
							out = append(out, []int64{int64(i), int64(j)})
						}
					}
					return out
				}},
			{Name: "c19-par-run", Overlay: libOverlay("C19/c19.go"), Pkg: "libvore", Entry: "VerifC19ParRun", Race: true, MaxFailures: 2,
				Args: func(tier string, l *Loaded) [][]int64 {
					return seqArgs(countOf(l, "libvore", "VerifC19Count"), tOf(tier, 1, 2))
				}},
		}}
	properties["T00"] = &PropertySpec{ID: "T00", Groups: []JobGroup{{
		Name: "toy2", Overlay: map[string][]string{"libvore": {"toy/toy2.go"}}, Pkg: "libvore", Entry: "VerifToy2",
		Args: func(tier string, l *Loaded) [][]int64 { return [][]int64{{2}, {3}} },
	}}}
}
