package main

func seqArgs(n int, rest ...int64) [][]int64 {
	var out [][]int64
	for i := 0; i < n; i++ {
		out = append(out, append([]int64{int64(i)}, rest...))
	}
	return out
}

// countOf runs a concrete "count" function of the harness to learn how many jobs a group has.
func countOf(l *Loaded, pkg, fn string) int {
	f, err := l.fn(pkg, fn)
	if err != nil {
		panic(err)
	}
	res := Explore(l.prog, f, nil, ExploreOpts{Workers: 1, Solver: "z3", TimeoutMs: 10000, Budget: 10_000_000})
	return int(res.Ret)
}

var libOverlay = func(files ...string) map[string][]string {
	return map[string][]string{"libvore": append([]string{"common/lib.go"}, files...)}
}

func init() {
	properties["C01"] = &PropertySpec{ID: "C01",
		Rule: "shapes: every atom kind alone, every combinator over literal atoms, global-pattern programs (list in harness/C01/c01.go); text: all ASCII strings of length 0..T (quick T=3, thorough T=5); literal bytes symbolic (printable ASCII) in the symbolic-literal group",
		Assumptions: []string{"ASCII text", "loop ids returned by math/rand.Int63 are pairwise distinct", "programs on which the property statement is silent (empty literals, empty/unbound back-references, named loops, whole file/line/word) are assumed away"},
		Groups: []JobGroup{
			{Name: "c01-concrete-literals", Overlay: libOverlay("C01/c01.go"), Pkg: "libvore", Entry: "VerifC01",
				Args: func(tier string, l *Loaded) [][]int64 {
					T := int64(3)
					if tier == "thorough" {
						T = 5
					}
					return seqArgs(countOf(l, "libvore", "VerifC01Count"), T, 0, 0)
				}},
			{Name: "c01-symbolic-literals", Overlay: libOverlay("C01/c01.go"), Pkg: "libvore", Entry: "VerifC01",
				Args: func(tier string, l *Loaded) [][]int64 {
					T := int64(3)
					if tier == "thorough" {
						T = 4
					}
					return seqArgs(countOf(l, "libvore", "VerifC01Count"), T, 3, 0)
				}},
			{Name: "c01-twin", Overlay: libOverlay("C01/c01.go"), Pkg: "libvore", Entry: "VerifC01", Twin: true,
				Args: func(tier string, l *Loaded) [][]int64 { return [][]int64{{0, 2, 0, 1}} }},
		}}
	properties["T00"] = &PropertySpec{ID: "T00", Groups: []JobGroup{{
		Name: "toy2", Overlay: map[string][]string{"libvore": {"toy/toy2.go"}}, Pkg: "libvore", Entry: "VerifToy2",
		Args: func(tier string, l *Loaded) [][]int64 { return [][]int64{{2}, {3}} },
	}}}
}
