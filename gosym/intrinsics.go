package main

import (
	"fmt"
	"go/types"
	"os"
	"strings"

	"golang.org/x/tools/go/ssa"
)

type intrinsicFn func(m *Machine, fr *frame, fn *ssa.Function, args []value) value

var skipInitPkgs = map[string]bool{
	"runtime": true, "reflect": true, "sync": true, "sync/atomic": true, "syscall": true, "os": true, "time": true, "unsafe": true,
	"internal/abi": true, "internal/cpu": true, "internal/bytealg": true, "internal/reflectlite": true, "internal/poll": true,
	"internal/testlog": true, "internal/godebug": true, "internal/godebugs": true, "internal/race": true, "math/rand": true,
	"fmt": true, "flag": true, "log": true, "encoding/json": true, "os/signal": true, "runtime/pprof": true, "runtime/debug": true,
	"internal/fmtsort": true, "internal/syscall/unix": true, "internal/syscall/execenv": true, "path/filepath": true, "io/fs": false,
	"encoding/base64": true, "encoding/binary": true, "encoding": true, "text/tabwriter": true, "compress/gzip": true, "math/big": true,
	"internal/goos": true, "internal/goarch": true, "internal/chacha8rand": true, "internal/profilerecord": true, "context": true,
	"internal/bisect": true, "hash/crc32": true, "compress/flate": true, "hash": true, "bufio": false, "internal/stringslite": true,
	"internal/runtime/atomic": true, "internal/runtime/exithook": true, "internal/runtime/syscall": true, "math/bits": false,
	"internal/byteorder": true, "iter": true, "slices": true, "cmp": true, "internal/asan": true, "internal/msan": true, "unique": true, "weak": true,
	"internal/concurrent": true, "runtime/trace": true, "internal/trace": true, "internal/sysinfo": true, "regexp": true, "regexp/syntax": true,
	"text/template": true, "html": true, "net/url": true, "testing": true, "internal/coverage/rtcov": true, "internal/filepathlite": true,
	"internal/syscall/windows": true, "internal/nettrace": true, "internal/singleflight": true, "net": true, "crypto": true,
}

func skipInit(path string) bool {
	if v, ok := skipInitPkgs[path]; ok {
		return v
	}
	if strings.HasPrefix(path, "runtime/") || strings.HasPrefix(path, "internal/runtime") || strings.HasPrefix(path, "internal/trace") ||
		strings.HasPrefix(path, "crypto/") || strings.HasPrefix(path, "vendor/") || strings.HasPrefix(path, "net/") || strings.HasPrefix(path, "internal/coverage") {
		return true
	}
	return false
}

func (m *Machine) intrinsic(fn *ssa.Function) intrinsicFn {
	if h, ok := m.intrCache[fn]; ok {
		return h
	}
	h := m.findIntrinsic(fn)
	m.intrCache[fn] = h
	return h
}

func retNil(m *Machine, fr *frame, fn *ssa.Function, args []value) value { return nil }

func (m *Machine) findIntrinsic(fn *ssa.Function) intrinsicFn {
	name := fn.Name()
	// harness API: functions named v<Upper>... in any package
	if len(name) > 1 && name[0] == 'v' && fn.Pkg != nil && isRepoPkg(fn.Pkg.Pkg.Path()) {
		if h, ok := harnessAPI[name]; ok {
			return h
		}
	}
	if fn.Synthetic == "package initializer" && fn.Pkg != nil {
		path := fn.Pkg.Pkg.Path()
		if skipInit(path) {
			return retNil
		}
		return func(m *Machine, fr *frame, fn *ssa.Function, args []value) value {
			if m.epoch != 0 {
				// already initialised once per worker (init$guard is set); nothing to do
				return m.callSSA(fn, args, nil, fr, nil)
			}
			func() {
				defer func() {
					if r := recover(); r != nil {
						if os.Getenv("GOSYM_INITDEBUG") != "" {
							fmt.Fprintf(os.Stderr, "init %s: %s\n", fn.Pkg.Pkg.Path(), describePanic(r))
						}
					}
				}()
				m.callSSA(fn, args, nil, fr, nil)
			}()
			return nil
		}
	}
	full := fn.String()
	if h, ok := stubs[full]; ok {
		return func(m *Machine, fr *frame, fn *ssa.Function, args []value) value {
			m.stubCalls[full]++
			return h(m, fr, fn, args)
		}
	}
	if o := fn.Origin(); o != nil && o != fn {
		if h, ok := stubs[o.String()]; ok {
			return h
		}
	}
	// tolerate failures during package initialisation: opaque calls return zero values
	return nil
}

// harness API ---------------------------------------------------------------

var harnessAPI = map[string]intrinsicFn{}

func concStrArg(v value) string {
	s, ok := v.(str).concrete()
	if !ok {
		return "<sym>"
	}
	return s
}

func init() {
	harnessAPI["vByte"] = func(m *Machine, fr *frame, fn *ssa.Function, args []value) value {
		return m.newNondet(concStrArg(args[0]), 8)
	}
	harnessAPI["vBool"] = func(m *Machine, fr *frame, fn *ssa.Function, args []value) value {
		return m.newNondet(concStrArg(args[0]), 0)
	}
	harnessAPI["vInt"] = func(m *Machine, fr *frame, fn *ssa.Function, args []value) value {
		return m.newNondet(concStrArg(args[0]), 64)
	}
	harnessAPI["vInt64"] = harnessAPI["vInt"]
	harnessAPI["vRange"] = func(m *Machine, fr *frame, fn *ssa.Function, args []value) value {
		// symbolic int in [lo,hi], not concretised
		t := m.newNondet(concStrArg(args[0]), 64)
		lo, hi := args[1].(*Term), args[2].(*Term)
		m.assume(mkAnd(mkCmp(opSle, lo, t), mkCmp(opSle, t, hi)), fr)
		return t
	}
	harnessAPI["vPick"] = func(m *Machine, fr *frame, fn *ssa.Function, args []value) value {
		// concretised choice in [0,n)
		t := m.newNondet(concStrArg(args[0]), 64)
		n := args[1].(*Term)
		m.assume(mkCmp(opUlt, t, n), fr)
		v := m.concretize(t, fr)
		return mkConst(64, v)
	}
	harnessAPI["vConc"] = func(m *Machine, fr *frame, fn *ssa.Function, args []value) value {
		t := args[0].(*Term)
		return mkConst(t.w, m.concretize(t, fr))
	}
	harnessAPI["vIteByte"] = func(m *Machine, fr *frame, fn *ssa.Function, args []value) value {
		return mkIte(args[0].(*Term), args[1].(*Term), args[2].(*Term))
	}
	harnessAPI["vIteInt"] = harnessAPI["vIteByte"]
	harnessAPI["vDeepEqual"] = func(m *Machine, fr *frame, fn *ssa.Function, args []value) value {
		return m.deepEqual(fr, args[0], args[1], 0)
	}
	harnessAPI["vAssume"] = func(m *Machine, fr *frame, fn *ssa.Function, args []value) value {
		m.assume(args[0].(*Term), fr)
		return nil
	}
	harnessAPI["vFail"] = func(m *Machine, fr *frame, fn *ssa.Function, args []value) value {
		panic(pathEnd{kind: "fail", msg: concStrArg(args[0]), site: fr.stack()})
	}
	// vUnproved ends the path as "not decided": a lead the harness could not turn into an input-level
	// counterexample (the run becomes inconclusive, never a violation)
	harnessAPI["vUnproved"] = func(m *Machine, fr *frame, fn *ssa.Function, args []value) value {
		panic(pathEnd{kind: "unproved", msg: concStrArg(args[0]), site: fr.stack()})
	}
	harnessAPI["vReach"] = func(m *Machine, fr *frame, fn *ssa.Function, args []value) value {
		m.reach[concStrArg(args[0])]++
		return nil
	}
	harnessAPI["vNote"] = func(m *Machine, fr *frame, fn *ssa.Function, args []value) value {
		m.notes = append(m.notes, Note{Key: concStrArg(args[0]), V: args[1]})
		return nil
	}
	harnessAPI["vNoteInt"] = harnessAPI["vNote"]
	harnessAPI["vSymbolic"] = func(m *Machine, fr *frame, fn *ssa.Function, args []value) value {
		return termTrue
	}
	harnessAPI["vIsConcrete"] = func(m *Machine, fr *frame, fn *ssa.Function, args []value) value {
		switch a := args[0].(type) {
		case iface:
			switch x := a.v.(type) {
			case *Term:
				return mkBool(x.isConst())
			case str:
				_, ok := x.concrete()
				return mkBool(ok)
			}
		}
		return termTrue
	}
	harnessAPI["vFreeze"] = func(m *Machine, fr *frame, fn *ssa.Function, args []value) value {
		m.frozenLabel = concStrArg(args[0])
		m.failOnFrozen = true
		if m.frozenMaps == nil {
			m.frozenMaps = map[*mapObj]bool{}
		}
		m.freezeReachable(args[1], map[*object]bool{})
		return nil
	}
	harnessAPI["vThaw"] = func(m *Machine, fr *frame, fn *ssa.Function, args []value) value {
		for _, o := range m.frozenObjs {
			o.frozen = false
		}
		m.frozenObjs = nil
		m.frozenMaps = nil
		return nil
	}
	harnessAPI["vGlobalWrites"] = func(m *Machine, fr *frame, fn *ssa.Function, args []value) value {
		return mkConst(64, uint64(len(m.globalWrites)))
	}
	harnessAPI["vStdout"] = func(m *Machine, fr *frame, fn *ssa.Function, args []value) value {
		res := str{}
		for _, s := range m.stdout {
			res = concatStr(res, s)
		}
		return res
	}
	harnessAPI["vStdoutReset"] = func(m *Machine, fr *frame, fn *ssa.Function, args []value) value {
		m.stdout = nil
		return nil
	}
}

func (m *Machine) freezeReachable(v value, seen map[*object]bool) {
	switch v := v.(type) {
	case pointer:
		if v.obj != nil && !seen[v.obj] {
			seen[v.obj] = true
			v.obj.frozen = true
			m.frozenObjs = append(m.frozenObjs, v.obj)
			m.freezeReachable(v.obj.v, seen)
		}
	case slice:
		if v.obj != nil && !seen[v.obj] {
			seen[v.obj] = true
			v.obj.frozen = true
			m.frozenObjs = append(m.frozenObjs, v.obj)
			m.freezeReachable(v.obj.v, seen)
		}
	case iface:
		m.freezeReachable(v.v, seen)
	case structure:
		for _, f := range v {
			m.freezeReachable(f, seen)
		}
	case array:
		for _, f := range v {
			m.freezeReachable(f, seen)
		}
	case *mapObj:
		if v != nil && !m.frozenMaps[v] {
			m.frozenMaps[v] = true
			for i := range v.keys {
				if !v.dead[i] {
					m.freezeReachable(v.keys[i], seen)
					m.freezeReachable(v.vals[i], seen)
				}
			}
		}
	case *closure:
		if v != nil {
			for _, e := range v.env {
				m.freezeReachable(e, seen)
			}
		}
	}
}

// library stubs -------------------------------------------------------------

var stubs = map[string]intrinsicFn{}

func errorValue(m *Machine, msg string) value {
	// an error value: *errors.errorString{msg}
	errorsPkg := m.prog.ImportedPackage("errors")
	if errorsPkg != nil {
		if tn := errorsPkg.Type("errorString"); tn != nil {
			obj := m.newObject(structure{str{s: msg}}, nil)
			return iface{t: types.NewPointer(tn.Type()), v: pointer{obj: obj}}
		}
	}
	return iface{t: types.Typ[types.String], v: str{s: msg}}
}

func fmtArgs(m *Machine, v value) string {
	// variadic ...any slice
	s, ok := v.(slice)
	if !ok || s.len == 0 {
		return ""
	}
	arr := s.arr()
	parts := []string{}
	for i := 0; i < s.len; i++ {
		parts = append(parts, valString(arr[s.off+i]))
	}
	return strings.Join(parts, ",")
}

// sprintfLike implements the verbs the repository uses (%d %s %c %v %t %q %T %x %+v) for concrete
// arguments (strings may be symbolic); anything else is rendered opaquely. Formatting is not the
// subject of any property; determinism and the common verbs are what the code under test relies on.
func sprintfLike(m *Machine, format str, va value) str {
	f, ok := format.concrete()
	if !ok {
		return sprintfSymbolic(m, format, va)
	}
	var args []value
	if s, ok := va.(slice); ok && s.len > 0 {
		arr := s.arr()
		for i := 0; i < s.len; i++ {
			args = append(args, arr[s.off+i])
		}
	}
	res := str{}
	ai := 0
	lit := func(x string) { res = concatStr(res, str{s: x}) }
	for i := 0; i < len(f); i++ {
		if f[i] != '%' || i+1 >= len(f) {
			lit(string(f[i]))
			continue
		}
		i++
		// flags / width are skipped
		for i < len(f) && (f[i] == '+' || f[i] == '-' || f[i] == '#' || f[i] == ' ' || (f[i] >= '0' && f[i] <= '9') || f[i] == '.') {
			i++
		}
		if i >= len(f) {
			break
		}
		verb := f[i]
		if verb == '%' {
			lit("%")
			continue
		}
		var a value
		if ai < len(args) {
			a = args[ai]
			ai++
		} else {
			lit("%!" + string(verb) + "(MISSING)")
			continue
		}
		inner := a
		var dyn string
		if ia, ok := a.(iface); ok {
			inner = ia.v
			if ia.t != nil {
				dyn = ia.t.String()
			}
		}
		switch verb {
		case 'T':
			lit(dyn)
		case 'c':
			if t, ok := inner.(*Term); ok && t.isConst() {
				lit(string(rune(int32(t.c))))
			} else if t, ok := inner.(*Term); ok && t.w == 8 {
				res = concatStr(res, str{b: []*Term{t}})
			} else {
				lit("?")
			}
		case 's', 'v', 'd', 'q', 'x', 't':
			switch x := inner.(type) {
			case str:
				if verb == 'q' {
					lit("\"")
					res = concatStr(res, x)
					lit("\"")
				} else {
					res = concatStr(res, x)
				}
			case *Term:
				if x.isConst() {
					if x.w == 0 {
						if x.c == 1 {
							lit("true")
						} else {
							lit("false")
						}
					} else if verb == 'x' {
						lit(fmt.Sprintf("%x", x.c))
					} else {
						lit(fmt.Sprint(sx(x.c, x.w)))
					}
				} else {
					lit("<sym>")
				}
			default:
				lit(valString(a))
			}
		default:
			lit(valString(a))
		}
	}
	return res
}

// sprintfSymbolic: a format string with symbolic bytes (data used as a format). Every symbolic byte is
// decided to be '%' or not by a branch; after a '%', flag / width characters are skipped as fmt does and the
// verb is reported as fmt reports a verb without operand (%!v(MISSING)), "%%" is a percent sign, a '%' at the
// end is %!(NOVERB). Operands together with a symbolic format are not supported.
func sprintfSymbolic(m *Machine, format str, va value) str {
	if s, ok := va.(slice); ok && s.len > 0 {
		panic(unsupported("fmt: symbolic format string with operands"))
	}
	bs := format.bytes()
	is := func(t *Term, pred func(byte) bool, cond func(*Term) *Term) bool {
		if t.isConst() {
			return pred(byte(t.c))
		}
		return m.branch(cond(t), nil)
	}
	isPct := func(t *Term) bool {
		return is(t, func(b byte) bool { return b == '%' }, func(t *Term) *Term { return mkEq(t, mkConst(8, '%')) })
	}
	isFlag := func(t *Term) bool {
		return is(t, func(b byte) bool {
			return b == '+' || b == '-' || b == '#' || b == ' ' || b == '.' || (b >= '0' && b <= '9')
		}, func(t *Term) *Term {
			c := mkAnd(mkCmp(opUle, mkConst(8, '0'), t), mkCmp(opUle, t, mkConst(8, '9')))
			for _, ch := range []byte{'+', '-', '#', ' ', '.'} {
				c = mkOr(c, mkEq(t, mkConst(8, uint64(ch))))
			}
			return c
		})
	}
	var out []*Term
	lit := func(x string) {
		for i := 0; i < len(x); i++ {
			out = append(out, mkConst(8, uint64(x[i])))
		}
	}
	for i := 0; i < len(bs); i++ {
		if !isPct(bs[i]) {
			out = append(out, bs[i])
			continue
		}
		i++
		for i < len(bs) && isFlag(bs[i]) {
			i++
		}
		if i >= len(bs) {
			lit("%!(NOVERB)")
			break
		}
		if isPct(bs[i]) {
			lit("%")
			continue
		}
		lit("%!")
		out = append(out, bs[i])
		lit("(MISSING)")
	}
	return mkStr(out)
}

func init() {
	stubs["fmt.Sprintf"] = func(m *Machine, fr *frame, fn *ssa.Function, args []value) value {
		return sprintfLike(m, args[0].(str), args[1])
	}
	stubs["fmt.Errorf"] = func(m *Machine, fr *frame, fn *ssa.Function, args []value) value {
		s := sprintfLike(m, args[0].(str), args[1])
		c, _ := s.concrete()
		return errorValue(m, c)
	}
	stubs["fmt.Sprint"] = func(m *Machine, fr *frame, fn *ssa.Function, args []value) value {
		return sprintfLike(m, str{}, args[0])
	}
	stubs["fmt.Sprintln"] = stubs["fmt.Sprint"]
	printer := func(m *Machine, fr *frame, fn *ssa.Function, args []value) value {
		var s str
		switch fn.Name() {
		case "Printf":
			s = sprintfLike(m, args[0].(str), args[1])
		default:
			// Print / Println: operands formatted with %v, Println separates by blanks and ends the line
			if sl, ok := args[0].(slice); ok && sl.len > 0 {
				arr := sl.arr()
				for i := 0; i < sl.len; i++ {
					if i > 0 && fn.Name() == "Println" {
						s = concatStr(s, str{s: " "})
					}
					one := m.newObject(array{arr[sl.off+i]}, nil)
					s = concatStr(s, sprintfLike(m, str{s: "%v"}, slice{obj: one, len: 1, cap: 1}))
				}
			}
			if fn.Name() == "Println" {
				s = concatStr(s, str{s: "\n"})
			}
		}
		m.stdout = append(m.stdout, s)
		return tuple{mkConst(64, uint64(s.length())), iface{}}
	}
	stubs["fmt.Printf"] = printer
	stubs["fmt.Println"] = printer
	stubs["fmt.Print"] = printer
	stubs["fmt.Fprintf"] = func(m *Machine, fr *frame, fn *ssa.Function, args []value) value {
		return tuple{mkConst(64, 0), iface{}}
	}
	stubs["fmt.Fprintln"] = stubs["fmt.Fprintf"]
	stubs["fmt.Fprint"] = stubs["fmt.Fprintf"]
	stubs["math/rand.Int63"] = func(m *Machine, fr *frame, fn *ssa.Function, args []value) value {
		m.randCounter++
		return mkConst(64, 0x1000+m.randCounter)
	}
	stubs["math/rand.Int"] = stubs["math/rand.Int63"]
	stubs["internal/bytealg.IndexByteString"] = func(m *Machine, fr *frame, fn *ssa.Function, args []value) value {
		s := args[0].(str)
		c := args[1].(*Term)
		for i := 0; i < s.length(); i++ {
			if m.branch(mkEq(s.at(i), c), fr) {
				return mkConst(64, uint64(i))
			}
		}
		return mkConst(64, ^uint64(0))
	}
	stubs["internal/bytealg.IndexByte"] = func(m *Machine, fr *frame, fn *ssa.Function, args []value) value {
		s := args[0].(slice)
		c := args[1].(*Term)
		if s.len > 0 {
			arr := s.arr()
			for i := 0; i < s.len; i++ {
				if m.branch(mkEq(arr[s.off+i].(*Term), c), fr) {
					return mkConst(64, uint64(i))
				}
			}
		}
		return mkConst(64, ^uint64(0))
	}
	// three-way comparison (strings.Compare, bytes.Compare, cmp.Compare on strings): forks into <, ==, >
	cmp3 := func(m *Machine, fr *frame, a, b str) value {
		if m.branch(strLess(a, b, false), fr) {
			return mkConst(64, ^uint64(0))
		}
		if m.branch(strEq(a, b), fr) {
			return mkConst(64, 0)
		}
		return mkConst(64, 1)
	}
	stubs["internal/bytealg.CompareString"] = func(m *Machine, fr *frame, fn *ssa.Function, args []value) value {
		return cmp3(m, fr, args[0].(str), args[1].(str))
	}
	stubs["internal/bytealg.abigen_runtime_cmpstring"] = stubs["internal/bytealg.CompareString"]
	stubs["internal/bytealg.Compare"] = func(m *Machine, fr *frame, fn *ssa.Function, args []value) value {
		return cmp3(m, fr, mkStr(byteSliceToTerms(args[0].(slice))), mkStr(byteSliceToTerms(args[1].(slice))))
	}
	stubs["internal/bytealg.Count"] = func(m *Machine, fr *frame, fn *ssa.Function, args []value) value {
		bs := byteSliceToTerms(args[0].(slice))
		c := args[1].(*Term)
		n := uint64(0)
		for _, b := range bs {
			if m.branch(mkEq(b, c), fr) {
				n++
			}
		}
		return mkConst(64, n)
	}
	stubs["internal/bytealg.Index"] = func(m *Machine, fr *frame, fn *ssa.Function, args []value) value {
		a, b := mkStr(byteSliceToTerms(args[0].(slice))), mkStr(byteSliceToTerms(args[1].(slice)))
		for i := 0; i+b.length() <= a.length(); i++ {
			if m.branch(strEq(a.slice(i, i+b.length()), b), fr) {
				return mkConst(64, uint64(i))
			}
		}
		return mkConst(64, ^uint64(0))
	}
	stubs["internal/bytealg.CountString"] = func(m *Machine, fr *frame, fn *ssa.Function, args []value) value {
		s := args[0].(str)
		c := args[1].(*Term)
		n := uint64(0)
		for i := 0; i < s.length(); i++ {
			if m.branch(mkEq(s.at(i), c), fr) {
				n++
			}
		}
		return mkConst(64, n)
	}
	stubs["internal/bytealg.IndexString"] = func(m *Machine, fr *frame, fn *ssa.Function, args []value) value {
		a, b := args[0].(str), args[1].(str)
		for i := 0; i+b.length() <= a.length(); i++ {
			if m.branch(strEq(a.slice(i, i+b.length()), b), fr) {
				return mkConst(64, uint64(i))
			}
		}
		return mkConst(64, ^uint64(0))
	}
	stubs["internal/bytealg.Equal"] = func(m *Machine, fr *frame, fn *ssa.Function, args []value) value {
		a, b := args[0].(slice), args[1].(slice)
		if a.len != b.len {
			return termFalse
		}
		res := termTrue
		if a.len > 0 {
			aa, ba := a.arr(), b.arr()
			for i := 0; i < a.len; i++ {
				res = mkAnd(res, mkEq(aa[a.off+i].(*Term), ba[b.off+i].(*Term)))
			}
		}
		return res
	}
	stubs["internal/stringslite.Index"] = stubs["internal/bytealg.IndexString"]
	stubs["internal/stringslite.IndexByte"] = stubs["internal/bytealg.IndexByteString"]
	stubs["strings.Index"] = stubs["internal/bytealg.IndexString"]
	stubs["strings.IndexByte"] = stubs["internal/bytealg.IndexByteString"]
	stubs["internal/stringslite.HasPrefix"] = func(m *Machine, fr *frame, fn *ssa.Function, args []value) value {
		a, b := args[0].(str), args[1].(str)
		if a.length() < b.length() {
			return termFalse
		}
		return strEq(a.slice(0, b.length()), b)
	}
	stubs["strings.HasPrefix"] = stubs["internal/stringslite.HasPrefix"]
	stubs["internal/stringslite.HasSuffix"] = func(m *Machine, fr *frame, fn *ssa.Function, args []value) value {
		a, b := args[0].(str), args[1].(str)
		if a.length() < b.length() {
			return termFalse
		}
		return strEq(a.slice(a.length()-b.length(), a.length()), b)
	}
	stubs["strings.HasSuffix"] = stubs["internal/stringslite.HasSuffix"]
	stubs["internal/stringslite.TrimPrefix"] = func(m *Machine, fr *frame, fn *ssa.Function, args []value) value {
		a, b := args[0].(str), args[1].(str)
		if a.length() >= b.length() && m.branch(strEq(a.slice(0, b.length()), b), fr) {
			return a.slice(b.length(), a.length())
		}
		return a
	}
	stubs["strings.TrimPrefix"] = stubs["internal/stringslite.TrimPrefix"]
	// strings.Builder uses unsafe to build the result; model it structurally.
	stubs["(*strings.Builder).String"] = func(m *Machine, fr *frame, fn *ssa.Function, args []value) value {
		p := args[0].(pointer)
		st := (*cellOf(p.obj, p.path)).(structure)
		buf := st[1].(slice)
		if buf.len == 0 {
			return str{}
		}
		arr := buf.arr()
		bs := make([]*Term, buf.len)
		for i := range bs {
			bs[i] = arr[buf.off+i].(*Term)
		}
		return mkStr(bs)
	}
	stubs["(*strings.Builder).copyCheck"] = retNil
	stubs["(*strings.Builder).grow"] = retNil
	stubs["(*strings.Builder).Grow"] = retNil
	stubs["internal/bytealg.MakeNoZero"] = func(m *Machine, fr *frame, fn *ssa.Function, args []value) value {
		n := m.concInt(args[0], fr)
		return m.makeSlice(types.Typ[types.Uint8], int(n), int(n))
	}
	ident := func(m *Machine, fr *frame, fn *ssa.Function, args []value) value { return args[0] }
	stubs["internal/stringslite.Clone"] = ident
	stubs["strings.Clone"] = ident
	stubs["strconv.cloneString"] = ident
	stubs["os.Exit"] = func(m *Machine, fr *frame, fn *ssa.Function, args []value) value {
		m.exitCode = int(m.concInt(args[0], fr))
		m.exited = true
		if m.inMain {
			panic(exitPanic{m.exitCode})
		}
		panic(pathEnd{kind: "exit", msg: fmt.Sprintf("os.Exit(%d)", m.exitCode)})
	}
	logFatal := func(m *Machine, fr *frame, fn *ssa.Function, args []value) value {
		m.stderr = append(m.stderr, sprintfLike(m, str{s: "%v"}, args[0]))
		m.exitCode = 1
		m.exited = true
		if m.inMain {
			panic(exitPanic{1})
		}
		panic(pathEnd{kind: "exit", msg: "log.Fatal"})
	}
	stubs["log.Fatal"] = logFatal
	stubs["log.Fatalln"] = logFatal
	stubs["log.Fatalf"] = func(m *Machine, fr *frame, fn *ssa.Function, args []value) value {
		m.stderr = append(m.stderr, sprintfLike(m, args[0].(str), args[1]))
		m.exitCode = 1
		if m.inMain {
			panic(exitPanic{1})
		}
		panic(pathEnd{kind: "exit", msg: "log.Fatalf"})
	}
	// flag package: values come from the harness (vRunMain), parsing of argv is not modelled
	flagCell := func(m *Machine, v value) value {
		return pointer{obj: m.newObject(v, nil)}
	}
	stubs["flag.String"] = func(m *Machine, fr *frame, fn *ssa.Function, args []value) value {
		name := concStrArg(args[0])
		if v, ok := m.flagStr[name]; ok {
			return flagCell(m, v)
		}
		return flagCell(m, args[1])
	}
	stubs["flag.Bool"] = func(m *Machine, fr *frame, fn *ssa.Function, args []value) value {
		name := concStrArg(args[0])
		if v, ok := m.flagBool[name]; ok {
			return flagCell(m, v)
		}
		return flagCell(m, args[1])
	}
	// the Var forms store into the caller's variable
	stubs["flag.StringVar"] = func(m *Machine, fr *frame, fn *ssa.Function, args []value) value {
		name := concStrArg(args[1])
		v := args[2]
		if x, ok := m.flagStr[name]; ok {
			v = x
		}
		fr.store(args[0].(pointer), v)
		return nil
	}
	stubs["flag.BoolVar"] = func(m *Machine, fr *frame, fn *ssa.Function, args []value) value {
		name := concStrArg(args[1])
		v := args[2]
		if x, ok := m.flagBool[name]; ok {
			v = x
		}
		fr.store(args[0].(pointer), v)
		return nil
	}
	stubs["flag.IntVar"] = func(m *Machine, fr *frame, fn *ssa.Function, args []value) value {
		fr.store(args[0].(pointer), args[2])
		return nil
	}
	stubs["flag.NArg"] = func(m *Machine, fr *frame, fn *ssa.Function, args []value) value { return mkConst(64, 0) }
	stubs["flag.NFlag"] = func(m *Machine, fr *frame, fn *ssa.Function, args []value) value {
		return mkConst(64, uint64(len(m.flagStr)+len(m.flagBool)))
	}
	stubs["flag.Args"] = func(m *Machine, fr *frame, fn *ssa.Function, args []value) value { return slice{} }
	stubs["flag.Parsed"] = func(m *Machine, fr *frame, fn *ssa.Function, args []value) value { return termTrue }
	stubs["flag.Int"] = func(m *Machine, fr *frame, fn *ssa.Function, args []value) value { return flagCell(m, args[1]) }
	stubs["flag.Func"] = func(m *Machine, fr *frame, fn *ssa.Function, args []value) value {
		m.flagFuncs = append(m.flagFuncs, flagFunc{concStrArg(args[0]), args[2]})
		return nil
	}
	stubs["flag.Parse"] = func(m *Machine, fr *frame, fn *ssa.Function, args []value) value {
		for _, ff := range m.flagFuncs {
			if v, ok := m.flagStr[ff.name]; ok {
				res := m.call(ff.fn, []value{v}, fr, nil)
				if e, isI := res.(iface); isI && e.t != nil {
					// flag.ExitOnError: message on stderr, usage, exit status 2
					m.stderr = append(m.stderr, str{s: "invalid value for flag -" + ff.name})
					m.exitCode = 2
					if m.inMain {
						panic(exitPanic{2})
					}
					panic(pathEnd{kind: "exit", msg: "flag error"})
				}
			}
		}
		return nil
	}
	stubs["flag.PrintDefaults"] = func(m *Machine, fr *frame, fn *ssa.Function, args []value) value {
		m.stderr = append(m.stderr, str{s: "<usage>"})
		return nil
	}
	stubs["runtime/pprof.StartCPUProfile"] = func(m *Machine, fr *frame, fn *ssa.Function, args []value) value { return iface{} }
	stubs["runtime/pprof.StopCPUProfile"] = retNil
	// vRunMain(flags): run the package's real main() under the flag/exit/stdout model
	harnessAPI["vRunMain"] = func(m *Machine, fr *frame, fn *ssa.Function, args []value) value {
		m.flagStr = map[string]value{}
		m.flagBool = map[string]value{}
		m.flagFuncs = nil
		m.stdout = nil
		m.stderr = nil
		if sl, ok := args[0].(slice); ok && sl.len > 0 {
			arr := sl.arr()
			for i := 0; i+1 < sl.len; i += 2 {
				name := concStrArg(arr[sl.off+i])
				m.flagStr[name] = arr[sl.off+i+1]
			}
		}
		if sl, ok := args[1].(slice); ok && sl.len > 0 {
			arr := sl.arr()
			for i := 0; i < sl.len; i++ {
				m.flagBool[concStrArg(arr[sl.off+i])] = termTrue
			}
		}
		mainFn := fn.Pkg.Func("main")
		// package-level state of main is re-initialised by the harness (replaceModeArg)
		exit := 0
		func() {
			defer func() {
				if r := recover(); r != nil {
					switch x := r.(type) {
					case exitPanic:
						exit = x.code
					case *goPanic:
						exit = 2 // an uncaught panic terminates the process with status 2
						m.stderr = append(m.stderr, str{s: "panic: " + x.msg})
						m.notes = append(m.notes, Note{Key: "panic", V: str{s: x.msg + " at " + innermostRepoFunc(x.site)}})
					default:
						panic(r)
					}
				}
			}()
			m.inMain = true
			defer func() { m.inMain = false }()
			m.callSSA(mainFn, nil, nil, fr, nil)
		}()
		out := str{}
		for _, s := range m.stdout {
			out = concatStr(out, s)
		}
		errs := str{}
		for _, s := range m.stderr {
			errs = concatStr(errs, s)
		}
		return tuple{mkConst(64, uint64(exit)), out, errs}
	}
	// sync/atomic: single-threaded execution makes every operation trivially atomic; the accesses are not
	// entered into the lockset analysis (atomic accesses do not race with each other)
	atomicCell := func(fn *ssa.Function, args []value) pointer {
		p := args[0].(pointer)
		if fn.Signature.Recv() != nil {
			// typed values (atomic.Int64 etc.): the cell is the field named v
			if pt, ok := fn.Signature.Recv().Type().Underlying().(*types.Pointer); ok {
				if st, ok := pt.Elem().Underlying().(*types.Struct); ok {
					for i := 0; i < st.NumFields(); i++ {
						if st.Field(i).Name() == "v" {
							np := append(append([]int{}, p.path...), i)
							return pointer{obj: p.obj, path: np}
						}
					}
				}
			}
			panic(unsupported("sync/atomic typed value without field v: " + fn.String()))
		}
		return p
	}
	atomicOp := func(kind string) intrinsicFn {
		return func(m *Machine, fr *frame, fn *ssa.Function, args []value) value {
			if m.sched != nil {
				m.syncPoint(fr, "before atomic "+kind)
			}
			m.syncDepth++
			defer func() { m.syncDepth-- }()
			p := atomicCell(fn, args)
			switch kind {
			case "load":
				return fr.load(p)
			case "store":
				fr.store(p, args[1])
				return nil
			case "swap":
				old := fr.load(p)
				fr.store(p, args[1])
				return old
			case "add":
				nv := mkBin(opAdd, fr.load(p).(*Term), args[1].(*Term))
				fr.store(p, nv)
				return nv
			case "cas":
				old := fr.load(p).(*Term)
				if m.branch(mkEq(old, args[1].(*Term)), fr) {
					fr.store(p, args[2])
					return termTrue
				}
				return termFalse
			}
			panic(unsupported("sync/atomic " + kind))
		}
	}
	for _, ty := range []string{"Int32", "Int64", "Uint32", "Uint64", "Uintptr"} {
		stubs["sync/atomic.Load"+ty] = atomicOp("load")
		stubs["sync/atomic.Store"+ty] = atomicOp("store")
		stubs["sync/atomic.Swap"+ty] = atomicOp("swap")
		stubs["sync/atomic.Add"+ty] = atomicOp("add")
		stubs["sync/atomic.CompareAndSwap"+ty] = atomicOp("cas")
		stubs["(*sync/atomic."+ty+").Load"] = atomicOp("load")
		stubs["(*sync/atomic."+ty+").Store"] = atomicOp("store")
		stubs["(*sync/atomic."+ty+").Swap"] = atomicOp("swap")
		stubs["(*sync/atomic."+ty+").Add"] = atomicOp("add")
		stubs["(*sync/atomic."+ty+").CompareAndSwap"] = atomicOp("cas")
	}
	// mutexes: single-threaded execution never blocks, but the set of held locks is tracked for the
	// lockset (Eraser-style) analysis of accesses to package-level variables (C19)
	lockKey := func(v value) string {
		p := v.(pointer)
		if p.obj == nil {
			return "nil"
		}
		if p.obj.global != nil {
			return p.obj.global.String() + fmt.Sprint(p.path)
		}
		return fmt.Sprintf("obj%d%v", p.obj.id, p.path)
	}
	lock := func(m *Machine, fr *frame, fn *ssa.Function, args []value) value {
		k := lockKey(args[0])
		if m.heldLocks == nil {
			m.heldLocks = map[string]int{}
		}
		if m.heldLocks[k] > 0 {
			panic(pathEnd{kind: "fail", msg: "deadlock: sync.Mutex locked twice by the same call at " + fr.pos(), site: fr.stack()})
		}
		if m.sched != nil {
			m.schedAcquire(fr, k, false)
			if m.heldLocks == nil {
				m.heldLocks = map[string]int{}
			}
		}
		m.heldLocks[k]++
		return nil
	}
	unlockWith := func(shared bool) intrinsicFn {
		return func(m *Machine, fr *frame, fn *ssa.Function, args []value) value {
			k := lockKey(args[0])
			if m.heldLocks[k] <= 0 {
				panic(&goPanic{v: iface{t: types.Typ[types.String], v: str{s: "sync: unlock of unlocked mutex"}}, msg: "fatal error: sync: unlock of unlocked mutex", site: fr.stack()})
			}
			m.heldLocks[k]--
			if m.heldLocks[k] == 0 {
				delete(m.heldLocks, k)
			}
			if m.sched != nil {
				m.schedRelease(fr, k, shared)
			}
			return nil
		}
	}
	rlock := func(m *Machine, fr *frame, fn *ssa.Function, args []value) value {
		k := lockKey(args[0])
		if m.heldLocks == nil {
			m.heldLocks = map[string]int{}
		}
		if m.sched != nil {
			m.schedAcquire(fr, k, true)
			if m.heldLocks == nil {
				m.heldLocks = map[string]int{}
			}
		}
		m.heldLocks[k]++
		return nil
	}
	stubs["(*sync.Mutex).Lock"] = lock
	stubs["(*sync.Mutex).Unlock"] = unlockWith(false)
	stubs["(*sync.RWMutex).Lock"] = lock
	stubs["(*sync.RWMutex).Unlock"] = unlockWith(false)
	stubs["(*sync.RWMutex).RLock"] = rlock
	stubs["(*sync.RWMutex).RUnlock"] = unlockWith(true)
	harnessAPI["vUnsyncGlobals"] = func(m *Machine, fr *frame, fn *ssa.Function, args []value) value {
		// number of repository package-level variables written on this path whose accesses do not all
		// hold one common lock
		n := 0
		names := ""
		for g, a := range m.globalAcc {
			if a.written && !a.locked {
				n++
				names += g + " "
			}
		}
		for k, a := range m.sharedAcc {
			if a.written && !a.locked {
				n++
				names += m.sharedName[k] + " "
			}
		}
		if n > 0 {
			m.notes = append(m.notes, Note{Key: "unsynchronised", V: str{s: names}})
		}
		return mkConst(64, uint64(n))
	}
	harnessAPI["vAccessLogReset"] = func(m *Machine, fr *frame, fn *ssa.Function, args []value) value {
		m.globalAcc = map[string]*globalAccess{}
		m.trackShared = true
		m.sharedAcc = map[interface{}]*globalAccess{}
		m.sharedName = map[interface{}]string{}
		m.published = map[interface{}]bool{}
		return nil
	}
	stubs["(*sync.Once).Do"] = func(m *Machine, fr *frame, fn *ssa.Function, args []value) value {
		p := args[0].(pointer)
		key := fmt.Sprintf("once%d%v", p.obj.id, p.path)
		if m.onces == nil {
			m.onces = map[string]bool{}
		}
		if !m.onces[key] {
			m.onces[key] = true
			// everything the body writes happens-before every return of Do
			m.syncDepth++
			defer func() { m.syncDepth-- }()
			m.call(args[1], nil, fr, nil)
		}
		return nil
	}
	stubs["runtime.GOMAXPROCS"] = func(m *Machine, fr *frame, fn *ssa.Function, args []value) value { return mkConst(64, 1) }
	stubs["runtime.KeepAlive"] = retNil
	stubs["runtime.SetFinalizer"] = retNil
	stubs["unicode/utf8.RuneError"] = nil
	delete(stubs, "unicode/utf8.RuneError")
}

// deepEqual: structural equality of two heap values (the counterpart of reflect.DeepEqual for the
// closed set of value kinds of the executor); pointers are followed, interfaces need identical dynamic types.
func (m *Machine) deepEqual(fr *frame, a, b value, depth int) *Term {
	if depth > 200 {
		panic(unsupported("deepEqual: structure too deep or cyclic"))
	}
	switch x := a.(type) {
	case nil:
		return mkBool(b == nil)
	case *Term:
		y, ok := b.(*Term)
		if !ok || x.w != y.w {
			return termFalse
		}
		return mkEq(x, y)
	case str:
		y, ok := b.(str)
		if !ok {
			return termFalse
		}
		return strEq(x, y)
	case float64:
		y, ok := b.(float64)
		return mkBool(ok && x == y)
	case iface:
		y, ok := b.(iface)
		if !ok {
			return termFalse
		}
		if x.t == nil || y.t == nil {
			return mkBool(x.t == nil && y.t == nil)
		}
		if !types.Identical(x.t, y.t) {
			return termFalse
		}
		return m.deepEqual(fr, x.v, y.v, depth+1)
	case pointer:
		y, ok := b.(pointer)
		if !ok {
			return termFalse
		}
		if x.isNil() || y.isNil() {
			return mkBool(x.isNil() && y.isNil())
		}
		return m.deepEqual(fr, fr.load(x), fr.load(y), depth+1)
	case structure:
		y, ok := b.(structure)
		if !ok || len(x) != len(y) {
			return termFalse
		}
		res := termTrue
		for i := range x {
			res = mkAnd(res, m.deepEqual(fr, x[i], y[i], depth+1))
			if res.isFalse() {
				return res
			}
		}
		return res
	case array:
		y, ok := b.(array)
		if !ok || len(x) != len(y) {
			return termFalse
		}
		res := termTrue
		for i := range x {
			res = mkAnd(res, m.deepEqual(fr, x[i], y[i], depth+1))
			if res.isFalse() {
				return res
			}
		}
		return res
	case slice:
		y, ok := b.(slice)
		if !ok || x.len != y.len {
			return termFalse
		}
		if x.len == 0 {
			return termTrue
		}
		xa, ya := x.arr(), y.arr()
		res := termTrue
		for i := 0; i < x.len; i++ {
			res = mkAnd(res, m.deepEqual(fr, xa[x.off+i], ya[y.off+i], depth+1))
			if res.isFalse() {
				return res
			}
		}
		return res
	case *mapObj:
		y, ok := b.(*mapObj)
		if !ok {
			return termFalse
		}
		if x == nil || y == nil {
			return mkBool(x == nil && y == nil)
		}
		if x.n != y.n {
			return termFalse
		}
		res := termTrue
		for i, k := range x.keys {
			if x.dead[i] {
				continue
			}
			v2, present := m.mapGetNoFork(y, k)
			if !present {
				return termFalse
			}
			res = mkAnd(res, m.deepEqual(fr, x.vals[i], v2, depth+1))
		}
		return res
	}
	return mkBool(false)
}
