package main

import (
	"encoding/json"
	"flag"
	"fmt"
	"os"
	"runtime"
	"runtime/debug"
	"runtime/pprof"
	"strconv"
	"strings"
	"time"
)

func openLog(path string) *os.File {
	f, err := os.Create(path)
	if err != nil {
		panic(err)
	}
	return f
}

func main() {
	debug.SetGCPercent(400)
	if len(os.Args) < 2 {
		fmt.Fprintln(os.Stderr, "usage: vcheck <property|run|replay|selftest> ...")
		os.Exit(2)
	}
	switch os.Args[1] {
	case "run":
		os.Exit(cmdRun(os.Args[2:]))
	case "replay":
		os.Exit(cmdReplay(os.Args[2:]))
	case "selftest":
		os.Exit(cmdSelftest(os.Args[2:]))
	default:
		os.Exit(cmdCheck(os.Args[1:]))
	}
}

// cmdRun: ad-hoc exploration of one entry function (development aid).
func cmdRun(argv []string) int {
	fs := flag.NewFlagSet("run", flag.ExitOnError)
	pkg := fs.String("pkg", "libvore", "short package name")
	files := fs.String("files", "", "comma-separated harness files (relative to /verif/harness)")
	entry := fs.String("entry", "", "entry function")
	argStr := fs.String("args", "", "comma-separated integer args")
	workers := fs.Int("workers", runtime.NumCPU(), "workers")
	solver := fs.String("solver", "z3", "solver")
	budget := fs.Int64("budget", 50_000_000, "instruction budget per path")
	maxPaths := fs.Int64("maxpaths", 0, "max paths")
	maxFail := fs.Int("maxfail", 10, "stop after this many failures")
	slog := fs.String("solverlog", "", "solver log prefix")
	verbose := fs.Bool("v", false, "verbose")
	prof := fs.String("cpuprofile", "", "cpu profile")
	fs.Parse(argv)
	if *prof != "" {
		f, _ := os.Create(*prof)
		pprof.StartCPUProfile(f)
		defer pprof.StopCPUProfile()
	}
	spec := map[string][]string{}
	for _, f := range splitList(*files) {
		p := *pkg
		if i := strings.Index(f, ":"); i > 0 {
			p, f = f[:i], f[i+1:]
		}
		spec[p] = append(spec[p], f)
	}
	ov, err := buildOverlay(spec)
	if err != nil {
		fmt.Fprintln(os.Stderr, err)
		return 2
	}
	t0 := time.Now()
	l, err := loadRepo(ov, []string{pkgImportPath(*pkg)})
	if err != nil {
		fmt.Fprintln(os.Stderr, err)
		return 2
	}
	fmt.Fprintf(os.Stderr, "loaded in %.1fs\n", time.Since(t0).Seconds())
	fn, err := l.fn(*pkg, *entry)
	if err != nil {
		fmt.Fprintln(os.Stderr, err)
		return 2
	}
	var xs []int64
	for _, a := range splitList(*argStr) {
		v, _ := strconv.ParseInt(a, 10, 64)
		xs = append(xs, v)
	}
	args, err := intArgs(fn, xs)
	if err != nil {
		fmt.Fprintln(os.Stderr, err)
		return 2
	}
	initCPUTokens(*workers)
	res := Explore(l.prog, fn, args, ExploreOpts{Workers: *workers, Solver: *solver, TimeoutMs: 60000, Budget: *budget, MaxPaths: *maxPaths, MaxFailures: *maxFail, SolverLog: *slog, Verbose: *verbose})
	printResult(res)
	return 0
}

func splitList(s string) []string {
	if s == "" {
		return nil
	}
	return strings.Split(s, ",")
}

func printResult(res *ExploreResult) {
	fmt.Printf("paths=%d counts=%v decisions=%d steps=%d maxsteps=%d wall=%.2fs unknown=%d incomplete=%q\n", res.Paths, res.Counts, res.Decisions, res.Steps, res.MaxSteps, res.WallS, res.Unknowns, res.Incomplete)
	fmt.Printf("solver: queries=%d sat=%d unsat=%d unknown=%d errors=%d time=%.2fs max=%s\n", res.Solver.Queries, res.Solver.Sat, res.Solver.Unsat, res.Solver.Unknown, res.Solver.Errors, float64(res.Solver.TimeNs)/1e9, res.Solver.MaxQuery)
	fmt.Printf("reach=%v\n", res.Reach)
	if len(res.GlobalW) > 0 {
		fmt.Printf("globalWrites=%v\n", res.GlobalW)
	}
	for i, o := range res.Outcomes {
		if i >= 12 {
			fmt.Printf("... %d more\n", len(res.Outcomes)-i)
			break
		}
		b, _ := json.Marshal(o.Nondet)
		site := o.Site
		if len(site) > 400 {
			site = site[:400]
		}
		fmt.Printf("[%s] %s\n   notes=%v\n   nondet=%s\n   site=%s\n", o.Kind, o.Msg, o.Notes, b, site)
	}
}
