package main

import (
	"fmt"
	"go/types"
	"sort"
	"strings"
	"sync"
	"sync/atomic"
	"time"

	"golang.org/x/tools/go/ssa"
)

type Decision struct {
	Implied bool // follows from earlier decisions: no query, nothing asserted
	Taken   bool
	Val     uint64 // for concretisation decisions: the value tested
}

type workItem struct {
	prefix []Decision
	model  Model
}

type NondetRec struct {
	Label string
	W     int
	T     *Term
}

type Note struct {
	Key string
	V   value
}

// Outcome of one explored path.
type Outcome struct {
	Kind      string // ok, fail, panic, assume, unsupported, budget
	Msg       string
	Site      string
	Nondet    []NondetVal
	Notes     map[string]string
	Decisions int
	Steps     int64
	PanicRT   bool
}

type NondetVal struct {
	Label string `json:"label"`
	W     int    `json:"w"`
	V     uint64 `json:"v"`
}

// Explorer holds the shared state of one job's exploration.
type Explorer struct {
	prog        *ssa.Program
	entry       *ssa.Function
	args        []value
	opts        ExploreOpts
	mu          sync.Mutex
	wg          sync.WaitGroup
	workers     int
	idleSpawned int
	nextWid     int
	parked      []*Machine
	incomplete  string
	work        []workItem
	active      int
	stopped     bool
	outcomes    []Outcome // fails, panics, unsupported, budget (bounded)
	counts      map[string]int64
	reach       map[string]int64
	funcs       map[*ssa.Function]bool
	paths       int64
	decisions   int64
	steps       int64
	maxSteps    int64
	solver      SolverStats
	unknowns    int64
	samples     []Outcome
	globalW     map[string]int64
	frozenW     map[string]int64
	stubs       map[string]int64
	lastRet     int64
}

type ExploreOpts struct {
	Workers     int
	Solver      string
	TimeoutMs   int
	Budget      int64 // SSA instructions per path
	MaxPaths    int64
	MaxFailures int
	ReverseMaps bool
	Deadline    time.Time
	SolverLog   string
	Verbose     bool
}

// Machine is a per-worker interpreter instance.
type Machine struct {
	prog    *ssa.Program
	ex      *Explorer
	sol     *Solver
	epoch   int
	globals map[*ssa.Global]*object

	// per path
	prefix        []Decision
	decisions     []Decision
	model         Model
	nondet        []NondetRec
	notes         []Note
	steps         int64
	budget        int64
	objCounter    int
	undo          []undoRec
	reach         map[string]int64
	funcsSeen     map[*ssa.Function]bool
	recoverTarget []*frame
	frozenWrites  []string
	failOnFrozen  bool
	frozenLabel   string
	frozenMaps    map[*mapObj]bool
	frozenObjs    []*object
	globalWrites  map[string]int64
	reverseMaps   bool
	randCounter   uint64
	fs            *modelFS
	stdout        []str
	exitCode      int
	stubCalls     map[string]int64
	pathUnknown   bool
	pcCount       int
	decided       map[[2]uint64]bool
	concVals      map[[2]uint64]uint64
	exited        bool
	curFrame      *frame
	inMain        bool
	heldLocks     map[string]int
	globalAcc     map[string]*globalAccess
	stderr        []str
	flagStr       map[string]value
	flagBool      map[string]value
	flagFuncs     []flagFunc
	onces         map[string]bool
	sched         *scheduler
	pools         map[string]*poolState
	pooled        map[*object]string            // objects currently inside a sync.Pool -> where they were put
	trackShared   bool                          // C19: log accesses to heap objects reachable from package-level state
	sharedAcc     map[interface{}]*globalAccess // keyed by *object / *mapObj
	sharedName    map[interface{}]string
	published     map[interface{}]bool // path-local objects stored into shared memory during this path
	mapUndo       []mapUndoRec
	syncDepth     int // > 0 while executing an atomic operation or the body of a sync.Once: accesses are synchronised by construction

	methCache map[methKey]*ssa.Function
	implCache map[implKey]bool
	intrCache map[*ssa.Function]intrinsicFn
}

func (m *Machine) globalObj(g *ssa.Global) *object {
	if o, ok := m.globals[g]; ok {
		return o
	}
	// lazily created (package initialisers are run explicitly; untouched globals are zero)
	o := &object{id: -len(m.globals) - 1, epoch: 0, v: zero(g.Type().Underlying().(*types.Pointer).Elem()), global: g}
	m.globals[g] = o
	return o
}

func (m *Machine) noteGlobalWrite(g *ssa.Global, fr *frame) {
	if g.Pkg != nil && isRepoPkg(g.Pkg.Pkg.Path()) {
		if strings.HasPrefix(g.Name(), "init$guard") {
			return
		}
		m.globalWrites[g.String()+" at "+fr.pos()]++
		m.noteGlobalAccess(g, true)
	}
}

type globalAccess struct {
	written bool
	locked  bool // all accesses so far held at least one common lock
	locks   map[string]bool
	n       int
}

// noteGlobalAccess maintains, per package-level variable of the repository, the intersection of the
// locksets of all its accesses on this path (Eraser's lockset refinement).
func (m *Machine) noteGlobalAccess(g *ssa.Global, write bool) {
	if m.epoch == 0 || g.Pkg == nil || !isRepoPkg(g.Pkg.Pkg.Path()) || strings.HasPrefix(g.Name(), "init$guard") {
		return
	}
	if m.syncDepth > 0 {
		return
	}
	name := g.String()
	a := m.globalAcc[name]
	if a == nil {
		a = &globalAccess{locks: map[string]bool{}, locked: true}
		for k := range m.heldLocks {
			a.locks[k] = true
		}
		m.globalAcc[name] = a
	} else {
		for k := range a.locks {
			if m.heldLocks[k] == 0 {
				delete(a.locks, k)
			}
		}
	}
	a.n++
	if write {
		a.written = true
	}
	a.locked = len(a.locks) > 0
}

type mapUndoRec struct {
	mp    *mapObj
	keys  []value
	vals  []value
	dead  []bool
	index map[string]int
	n     int
}

// saveMap snapshots a map created during package initialisation before its first write on a path.
func (m *Machine) saveMap(mp *mapObj) {
	for _, u := range m.mapUndo {
		if u.mp == mp {
			return
		}
	}
	u := mapUndoRec{mp: mp, n: mp.n, index: map[string]int{}}
	u.keys = append([]value{}, mp.keys...)
	u.vals = append([]value{}, mp.vals...)
	u.dead = append([]bool{}, mp.dead...)
	for k, v := range mp.index {
		u.index[k] = v
	}
	m.mapUndo = append(m.mapUndo, u)
	// the live map continues on private copies of the slices
	mp.keys = append([]value{}, mp.keys...)
	mp.vals = append([]value{}, mp.vals...)
	mp.dead = append([]bool{}, mp.dead...)
	idx := map[string]int{}
	for k, v := range mp.index {
		idx[k] = v
	}
	mp.index = idx
}

// Shared heap (C19). Memory that more than one call can reach is (a) the package-level variables
// themselves (noteGlobalAccess), (b) every heap object or map created during package initialisation,
// and (c) every object a call stores into (a), (b) or (c) ("published"). Accesses to (b) and (c) go
// through the same lockset refinement as (a), keyed by object identity.
func (m *Machine) sharedObj(o *object) bool {
	if o == nil || o.global != nil {
		return false
	}
	return o.epoch == 0 || (m.published != nil && m.published[o])
}

func (m *Machine) sharedMap(mp *mapObj) bool {
	return mp != nil && (mp.epoch == 0 || (m.published != nil && m.published[mp]))
}

func (m *Machine) noteSharedAccess(key interface{}, name func() string, write bool) {
	if !m.trackShared || m.epoch == 0 || m.syncDepth > 0 {
		return
	}
	a := m.sharedAcc[key]
	if a == nil {
		a = &globalAccess{locks: map[string]bool{}, locked: true}
		for k := range m.heldLocks {
			a.locks[k] = true
		}
		m.sharedAcc[key] = a
		m.sharedName[key] = name()
	} else {
		for k := range a.locks {
			if m.heldLocks[k] == 0 {
				delete(a.locks, k)
			}
		}
	}
	a.n++
	if write {
		a.written = true
	}
	a.locked = len(a.locks) > 0
}

func (m *Machine) noteObjAccess(o *object, write bool, fr *frame) {
	if !m.trackShared || !m.sharedObj(o) {
		return
	}
	m.noteSharedAccess(o, func() string {
		t := "object"
		if o.typ != nil {
			t = o.typ.String()
		}
		return t + " allocated at " + o.site + " (first access at " + fr.pos() + ")"
	}, write)
}

func (m *Machine) noteMapAccess(mp *mapObj, write bool, fr *frame) {
	if !m.trackShared || !m.sharedMap(mp) {
		return
	}
	m.noteSharedAccess(mp, func() string { return fmt.Sprintf("map #%d (first access at %s)", mp.id, fr.pos()) }, write)
}

// publish marks everything reachable from v as shared: it has been stored into memory other calls can reach.
func (m *Machine) publish(v value) {
	if !m.trackShared {
		return
	}
	switch v := v.(type) {
	case pointer:
		m.publishObj(v.obj)
	case slice:
		m.publishObj(v.obj)
	case iface:
		m.publish(v.v)
	case structure:
		for _, f := range v {
			m.publish(f)
		}
	case array:
		for _, f := range v {
			m.publish(f)
		}
	case *mapObj:
		if v != nil && v.epoch != 0 && !m.published[v] {
			m.published[v] = true
			for i := range v.keys {
				if !v.dead[i] {
					m.publish(v.keys[i])
					m.publish(v.vals[i])
				}
			}
		}
	case *closure:
		if v != nil {
			for _, e := range v.env {
				m.publish(e)
			}
		}
	}
}

func (m *Machine) publishObj(o *object) {
	if o == nil || o.epoch == 0 || o.global != nil || m.published[o] {
		return
	}
	m.published[o] = true
	m.publish(o.v)
}

func isRepoPkg(path string) bool {
	return strings.HasPrefix(path, "github.com/jmeaster30/vore")
}

// branch decides a symbolic boolean, following the replay prefix or forking.
func (m *Machine) branch(c *Term, fr *frame) bool {
	if c.isConst() {
		return c.c == 1
	}
	return m.decide(c, 0)
}

// decide returns the truth value of a symbolic condition on this path.
//
// The decision log must be a function of the program execution alone: every call appends exactly one
// entry, also when the answer follows from earlier decisions (entry marked Implied, no query). A
// replayed prefix is followed entry by entry; caches keyed by term identity are only consulted beyond
// the prefix, because term identity depends on the state of the hash-consing table, which is shared by
// concurrently running jobs and therefore not reproducible.
func (m *Machine) decide(c *Term, val uint64) bool {
	k := len(m.decisions)
	if k < len(m.prefix) {
		d := m.prefix[k]
		m.decisions = append(m.decisions, d)
		if !d.Implied {
			if d.Taken {
				m.sol.Assert(c)
			} else {
				m.sol.Assert(mkNot(c))
			}
			m.pcCount++
		}
		m.remember(c, d.Taken)
		return d.Taken
	}
	if v, ok := m.lookupDecided(c); ok {
		m.decisions = append(m.decisions, Decision{Taken: v, Val: val, Implied: true})
		return v
	}
	r := m.decide1(c, val)
	m.remember(c, r)
	return r
}

func (m *Machine) lookupDecided(c *Term) (bool, bool) {
	if v, ok := m.decided[[2]uint64{c.h1, c.h2}]; ok {
		return v, true
	}
	if c.op == opNot {
		a := c.args[0]
		if v, ok := m.decided[[2]uint64{a.h1, a.h2}]; ok {
			return !v, true
		}
	}
	return false, false
}

func (m *Machine) remember(c *Term, r bool) {
	if c.op == opNot {
		a := c.args[0]
		m.decided[[2]uint64{a.h1, a.h2}] = !r
	} else {
		m.decided[[2]uint64{c.h1, c.h2}] = r
	}
}

// decide1 takes a real decision beyond the replayed prefix: one solver query for the side the current
// model does not take.
func (m *Machine) decide1(c *Term, val uint64) bool {
	k := len(m.decisions)
	side := evalTerm(c, m.model) == 1
	var other *Term
	if side {
		other = mkNot(c)
	} else {
		other = c
	}
	res, mod := m.sol.CheckWith(other)
	switch res {
	case Sat:
		np := make([]Decision, k+1)
		copy(np, m.decisions)
		np[k] = Decision{Taken: !side, Val: val}
		// complete the model with current values for variables the solver did not mention
		for n, v := range m.model {
			if _, ok := mod[n]; !ok {
				mod[n] = v
			}
		}
		m.ex.push(workItem{prefix: np, model: mod})
	case Unknown:
		m.pathUnknown = true
		atomic.AddInt64(&m.ex.unknowns, 1)
	}
	m.decisions = append(m.decisions, Decision{Taken: side, Val: val})
	if side {
		m.sol.Assert(c)
	} else {
		m.sol.Assert(mkNot(c))
	}
	m.pcCount++
	return side
}

// concretize enumerates the feasible values of t (one per path).
func (m *Machine) concretize(t *Term, fr *frame) uint64 {
	if t.isConst() {
		return t.c
	}
	for i := 0; ; i++ {
		if i > 4096 {
			panic(pathEnd{kind: "unsupported", msg: "concretisation of an unbounded term at " + fr.pos()})
		}
		k := len(m.decisions)
		var v uint64
		if k < len(m.prefix) {
			v = m.prefix[k].Val
		} else if cv, ok := m.concVals[[2]uint64{t.h1, t.h2}]; ok {
			m.decisions = append(m.decisions, Decision{Taken: true, Val: cv, Implied: true})
			return cv
		} else {
			v = evalTerm(t, m.model)
		}
		if m.decide(mkEq(t, mkConst(t.w, v)), v) {
			m.concVals[[2]uint64{t.h1, t.h2}] = v
			return v
		}
	}
}

func (m *Machine) assume(c *Term, fr *frame) {
	if c.isConst() {
		if c.c == 0 {
			panic(pathEnd{kind: "assume", msg: "assumption false"})
		}
		return
	}
	// An assumption is a branch whose false side is discarded.
	k := len(m.decisions)
	if k < len(m.prefix) {
		d := m.prefix[k]
		m.decisions = append(m.decisions, d)
		if !d.Taken {
			panic(pathEnd{kind: "assume", msg: "assumption false"})
		}
		if !d.Implied {
			m.sol.Assert(c)
		}
		m.remember(c, true)
		return
	}
	if v, ok := m.lookupDecided(c); ok {
		m.decisions = append(m.decisions, Decision{Taken: v, Implied: true})
		if !v {
			panic(pathEnd{kind: "assume", msg: "assumption false"})
		}
		return
	}
	if evalTerm(c, m.model) == 1 {
		m.decisions = append(m.decisions, Decision{Taken: true})
		m.sol.Assert(c)
		m.remember(c, true)
		return
	}
	res, mod := m.sol.CheckWith(c)
	switch res {
	case Sat:
		for n, v := range m.model {
			if _, ok := mod[n]; !ok {
				mod[n] = v
			}
		}
		m.model = mod
		m.decisions = append(m.decisions, Decision{Taken: true})
		m.sol.Assert(c)
		m.remember(c, true)
	case Unsat:
		m.decisions = append(m.decisions, Decision{Taken: false})
		panic(pathEnd{kind: "assume", msg: "assumption infeasible"})
	default:
		m.pathUnknown = true
		atomic.AddInt64(&m.ex.unknowns, 1)
		panic(pathEnd{kind: "unsupported", msg: "solver returned unknown on an assumption: " + lastSolverError})
	}
}

func (m *Machine) newNondet(label string, w int) *Term {
	name := fmt.Sprintf("n%d", len(m.nondet))
	t := mkVar(name, w)
	m.nondet = append(m.nondet, NondetRec{Label: label, W: w, T: t})
	if _, ok := m.model[name]; !ok {
		m.model[name] = 0
	}
	return t
}

// Global pool of CPU tokens shared by all concurrently running explorations: a job grows to as many
// workers as it has pending paths and tokens are free, and shrinks when its queue is empty.
var cpuTokens = make(chan struct{}, 64)

func initCPUTokens(n int) {
	for len(cpuTokens) > 0 {
		<-cpuTokens
	}
	for i := 0; i < n; i++ {
		cpuTokens <- struct{}{}
	}
}

func (ex *Explorer) push(w workItem) {
	ex.mu.Lock()
	ex.work = append(ex.work, w)
	ex.mu.Unlock()
	ex.maybeSpawn()
}

// maybeSpawn starts another worker if there is pending work and a free CPU token.
func (ex *Explorer) maybeSpawn() {
	ex.mu.Lock()
	if ex.stopped || len(ex.work) == 0 || ex.workers >= ex.opts.Workers || len(ex.work) <= ex.idleSpawned {
		ex.mu.Unlock()
		return
	}
	select {
	case <-cpuTokens:
	default:
		ex.mu.Unlock()
		return
	}
	ex.workers++
	ex.idleSpawned++
	wid := ex.nextWid
	ex.nextWid++
	ex.wg.Add(1)
	ex.mu.Unlock()
	go ex.worker(wid)
}

func (ex *Explorer) worker(wid int) {
	defer ex.wg.Done()
	defer func() {
		cpuTokens <- struct{}{}
		ex.mu.Lock()
		ex.workers--
		ex.mu.Unlock()
	}()
	var m *Machine
	// reuse an idle machine (solver process + initialised globals) if one is parked
	ex.mu.Lock()
	if n := len(ex.parked); n > 0 {
		m = ex.parked[n-1]
		ex.parked = ex.parked[:n-1]
	}
	ex.mu.Unlock()
	if m == nil {
		var err error
		m, err = newMachine(ex.prog, ex, wid)
		if err != nil {
			ex.mu.Lock()
			ex.incomplete = "worker start failed: " + err.Error()
			ex.idleSpawned--
			ex.stopped = true
			ex.mu.Unlock()
			return
		}
	}
	first := true
	for {
		ex.mu.Lock()
		if first {
			ex.idleSpawned--
			first = false
		}
		if ex.stopped || len(ex.work) == 0 {
			ex.parked = append(ex.parked, m)
			ex.mu.Unlock()
			return
		}
		n := len(ex.work)
		item := ex.work[n-1]
		ex.work = ex.work[:n-1]
		ex.mu.Unlock()
		out := m.runPath(item)
		ex.record(m, out)
		if m.sol.broken {
			if m.sol.timedOut {
				// a query exceeded the hard limit: count it as unknown and continue with a fresh solver
				atomic.AddInt64(&ex.unknowns, 1)
				old := m.sol
				old.Close()
				ns, err := NewSolver(old.kind, old.timeoutMs)
				if err == nil {
					ns.log = old.log
					m.sol = ns
					ex.maybeSpawn()
					continue
				}
			}
			ex.mu.Lock()
			ex.incomplete = "solver process died"
			ex.stopped = true
			ex.mu.Unlock()
			m.sol.Close()
			return
		}
		if !ex.opts.Deadline.IsZero() && time.Now().After(ex.opts.Deadline) {
			ex.mu.Lock()
			ex.incomplete = "deadline reached"
			ex.stopped = true
			ex.mu.Unlock()
		}
		ex.maybeSpawn()
	}
}

type ExploreResult struct {
	Paths       int64
	Counts      map[string]int64
	Reach       map[string]int64
	Outcomes    []Outcome
	Samples     []Outcome
	Decisions   int64
	Steps       int64
	MaxSteps    int64
	Solver      SolverStats
	Unknowns    int64
	Funcs       []string
	Truncated   bool
	GlobalW     map[string]int64
	FrozenW     map[string]int64
	Stubs       map[string]int64
	WallS       float64
	Incomplete  string
	WorkersUsed int
	Ret         int64
}

func Explore(prog *ssa.Program, entry *ssa.Function, args []value, opts ExploreOpts) *ExploreResult {
	ex := &Explorer{prog: prog, entry: entry, args: args, opts: opts, counts: map[string]int64{}, reach: map[string]int64{}, funcs: map[*ssa.Function]bool{}, globalW: map[string]int64{}, frozenW: map[string]int64{}, stubs: map[string]int64{}}
	if ex.opts.Workers <= 0 {
		ex.opts.Workers = 16
	}
	start := time.Now()
	if !opts.Deadline.IsZero() && start.After(opts.Deadline) {
		return &ExploreResult{Counts: map[string]int64{}, Reach: map[string]int64{}, Incomplete: "deadline reached before the job started"}
	}
	// the first worker is started with a blocking token acquisition so that every job makes progress
	<-cpuTokens
	ex.mu.Lock()
	ex.work = []workItem{{prefix: nil, model: Model{}}}
	ex.workers++
	ex.idleSpawned++
	ex.nextWid++
	ex.wg.Add(1)
	ex.mu.Unlock()
	go ex.worker(0)
	// wait until no worker is running and the queue is empty (workers re-spawn on push)
	for {
		ex.wg.Wait()
		ex.mu.Lock()
		done := ex.workers == 0 && (len(ex.work) == 0 || ex.stopped)
		ex.mu.Unlock()
		if done {
			break
		}
		// work left but all workers exited (race between exit and push): restart one
		<-cpuTokens
		ex.mu.Lock()
		ex.workers++
		ex.idleSpawned++
		wid := ex.nextWid
		ex.nextWid++
		ex.wg.Add(1)
		ex.mu.Unlock()
		go ex.worker(wid)
	}
	for _, m := range ex.parked {
		m.sol.Close()
	}
	res := &ExploreResult{Paths: ex.paths, Counts: ex.counts, Reach: ex.reach, Outcomes: ex.outcomes, Samples: ex.samples, Decisions: ex.decisions, Steps: ex.steps, MaxSteps: ex.maxSteps, Solver: ex.solver, Unknowns: ex.unknowns, GlobalW: ex.globalW, FrozenW: ex.frozenW, Stubs: ex.stubs}
	res.WallS = time.Since(start).Seconds()
	res.Ret = ex.lastRet
	incomplete := ex.incomplete
	if ex.stopped && incomplete == "" {
		incomplete = "stopped early (path or failure limit)"
	}
	res.Incomplete = incomplete
	if len(ex.work) > 0 {
		res.Truncated = true
	}
	for f := range ex.funcs {
		res.Funcs = append(res.Funcs, f.String())
	}
	sort.Strings(res.Funcs)
	return res
}

func (ex *Explorer) stop() {
	ex.mu.Lock()
	ex.stopped = true
	ex.mu.Unlock()
}

func (ex *Explorer) record(m *Machine, out Outcome) {
	ex.mu.Lock()
	defer ex.mu.Unlock()
	ex.paths++
	ex.counts[out.Kind]++
	ex.decisions += int64(out.Decisions)
	ex.steps += out.Steps
	if out.Steps > ex.maxSteps {
		ex.maxSteps = out.Steps
	}
	for k, v := range m.reach {
		ex.reach[k] += v
	}
	for f := range m.funcsSeen {
		ex.funcs[f] = true
	}
	for k, v := range m.globalWrites {
		ex.globalW[k] += v
	}
	for _, k := range m.frozenWrites {
		ex.frozenW[k]++
	}
	for k, v := range m.stubCalls {
		ex.stubs[k] += v
	}
	st := m.sol.stats
	ex.solver.Queries += st.Queries
	ex.solver.Sat += st.Sat
	ex.solver.Unsat += st.Unsat
	ex.solver.Unknown += st.Unknown
	ex.solver.Errors += st.Errors
	ex.solver.TimeNs += st.TimeNs
	if st.MaxQuery > ex.solver.MaxQuery {
		ex.solver.MaxQuery = st.MaxQuery
	}
	*m.sol.stats = SolverStats{}
	switch out.Kind {
	case "ok", "assume":
		if out.Kind == "ok" && len(ex.samples) < 5 {
			ex.samples = append(ex.samples, out)
		}
	default:
		if len(ex.outcomes) < 200 {
			ex.outcomes = append(ex.outcomes, out)
		}
		nf := ex.counts["fail"] + ex.counts["panic"]
		if ex.opts.MaxFailures > 0 && nf >= int64(ex.opts.MaxFailures) {
			ex.stopped = true
		}
	}
	if ex.opts.MaxPaths > 0 && ex.paths >= ex.opts.MaxPaths {
		ex.stopped = true
	}
}

func newMachine(prog *ssa.Program, ex *Explorer, wid int) (*Machine, error) {
	sol, err := NewSolver(ex.opts.Solver, ex.opts.TimeoutMs)
	if err != nil {
		return nil, err
	}
	if ex.opts.SolverLog != "" {
		sol.log = openLog(fmt.Sprintf("%s.%d.smt2", ex.opts.SolverLog, wid))
	}
	m := &Machine{prog: prog, ex: ex, sol: sol, globals: map[*ssa.Global]*object{}, methCache: map[methKey]*ssa.Function{}, implCache: map[implKey]bool{}, intrCache: map[*ssa.Function]intrinsicFn{}}
	m.budget = 1 << 40
	m.resetPathState()
	// run package initialisers once, concretely (epoch 0)
	m.epoch = 0
	m.model = Model{}
	m.sol.BeginPath()
	err = m.runInits(ex.entry)
	m.sol.EndPath()
	if err != nil {
		sol.Close()
		return nil, err
	}
	return m, nil
}

func (m *Machine) resetPathState() {
	m.decisions = nil
	m.nondet = nil
	m.notes = nil
	m.steps = 0
	m.undo = nil
	m.reach = map[string]int64{}
	m.funcsSeen = map[*ssa.Function]bool{}
	m.recoverTarget = nil
	m.frozenWrites = nil
	m.failOnFrozen = false
	m.frozenMaps = nil
	m.frozenObjs = nil
	m.globalWrites = map[string]int64{}
	m.randCounter = 0
	m.fs = nil
	m.stdout = nil
	m.exitCode = 0
	m.stubCalls = map[string]int64{}
	m.pathUnknown = false
	m.pcCount = 0
	m.decided = map[[2]uint64]bool{}
	m.concVals = map[[2]uint64]uint64{}
	m.exited = false
	m.curFrame = nil
	m.inMain = false
	m.heldLocks = nil
	m.globalAcc = map[string]*globalAccess{}
	m.stderr = nil
	m.flagStr, m.flagBool, m.flagFuncs = nil, nil, nil
	m.onces = nil
	m.syncDepth = 0
	m.sched = nil
	m.pools = nil
	m.pooled = nil
	m.trackShared = false
	m.sharedAcc = nil
	m.sharedName = nil
	m.published = nil
	m.mapUndo = nil
	m.reverseMaps = m.ex.opts.ReverseMaps
}

func (m *Machine) runInits(entry *ssa.Function) (err error) {
	defer func() {
		if r := recover(); r != nil {
			err = fmt.Errorf("package initialisation failed: %v", describePanic(r))
		}
	}()
	// initialise the entry package (transitively initialises its imports through init calls)
	if entry.Pkg != nil {
		initFn := entry.Pkg.Func("init")
		if initFn != nil {
			m.callSSA(initFn, nil, nil, nil, nil)
		}
	}
	return nil
}

func describePanic(r interface{}) string {
	switch r := r.(type) {
	case *goPanic:
		return "panic: " + r.msg + " at " + r.site
	case pathEnd:
		return r.kind + ": " + r.msg + " " + r.site
	case unsupportedErr:
		return "unsupported: " + r.msg
	}
	return fmt.Sprint(r)
}

func (m *Machine) runPath(item workItem) (out Outcome) {
	m.resetPathState()
	m.epoch++
	m.prefix = item.prefix
	m.model = item.model
	if m.model == nil {
		m.model = Model{}
	}
	m.budget = m.ex.opts.Budget
	m.objCounter = 0
	m.sol.BeginPath()
	defer func() {
		r := recover()
		kind, msg, site := "ok", "", ""
		rt := false
		switch r := r.(type) {
		case nil:
		case *goPanic:
			kind, msg, site, rt = "panic", r.msg, r.site, r.rt
		case pathEnd:
			kind, msg, site = r.kind, r.msg, r.site
		case unsupportedErr:
			kind, msg = "unsupported", r.msg
			if m.curFrame != nil {
				site = m.curFrame.stack()
			}
		default:
			kind, msg = "unsupported", fmt.Sprintf("interpreter error: %v", r)
			if m.ex.opts.Verbose {
				panic(r)
			}
		}
		if kind == "exit" {
			kind = "ok"
		}
		if m.pathUnknown && kind == "ok" {
			// the path itself is fine; the unexplored sibling is accounted in unknowns
		}
		out = Outcome{Kind: kind, Msg: msg, Site: site, Decisions: len(m.decisions), Steps: m.steps, PanicRT: rt}
		if kind != "assume" {
			out.Nondet = make([]NondetVal, len(m.nondet))
			for i, n := range m.nondet {
				out.Nondet[i] = NondetVal{Label: n.Label, W: n.W, V: evalTerm(n.T, m.model) & maskB(n.W)}
			}
			out.Notes = map[string]string{}
			for _, n := range m.notes {
				out.Notes[n.Key] = m.renderUnderModel(n.V)
			}
		}
		// undo writes to initialisation-time objects
		for i := len(m.undo) - 1; i >= 0; i-- {
			*m.undo[i].c = m.undo[i].old
		}
		for i := len(m.mapUndo) - 1; i >= 0; i-- {
			u := m.mapUndo[i]
			u.mp.keys, u.mp.vals, u.mp.dead, u.mp.index, u.mp.n = u.keys, u.vals, u.dead, u.index, u.n
		}
		for _, o := range m.frozenObjs {
			o.frozen = false
		}
		m.sol.EndPath()
	}()
	ret := m.callSSA(m.ex.entry, m.ex.args, nil, nil, nil)
	if t, ok := ret.(*Term); ok && t.isConst() {
		m.ex.lastRet = sx(t.c, t.w)
	}
	return
}

func (m *Machine) renderUnderModel(v value) string {
	switch v := v.(type) {
	case str:
		bs := make([]byte, v.length())
		for i := range bs {
			bs[i] = byte(evalTerm(v.at(i), m.model))
		}
		return string(bs)
	case *Term:
		x := evalTerm(v, m.model)
		if v.w == 0 {
			return fmt.Sprint(x == 1)
		}
		return fmt.Sprint(sx(x, v.w))
	case iface:
		return m.renderUnderModel(v.v)
	}
	return valString(v)
}

type exitPanic struct{ code int }

type flagFunc struct {
	name string
	fn   value
}
