package main

import (
	"bytes"
	"encoding/json"
	"flag"
	"fmt"
	"os"
	"os/exec"
	"path/filepath"
	"regexp"
	"runtime"
	"sort"
	"strconv"
	"strings"
	"sync"
	"time"

	"golang.org/x/tools/go/ssa"
)

// JobGroup describes one harness entry point and how many jobs (argument tuples) it has per tier.
type JobGroup struct {
	Name        string
	Overlay     map[string][]string // short pkg -> harness files
	Pkg         string              // short package of the entry
	Entry       string
	Args        func(tier string, l *Loaded) [][]int64 // argument tuples
	Budget      int64
	MaxPaths    int64
	MaxFailures int // stop a job after this many failing paths (0 = 5000)
	// Lemma: the group checks an inductive step from a constructed state; its native replay only confirms a
	// OptionalUnsupported: when a path of a job ends as "unsupported" with a message containing this text, the
	// encoding of this group cannot execute the implementation under test (a stated limitation, e.g. the lazily
	// defined window cannot run copy()); the job is then recorded as not applicable instead of inconclusive.
	// Only for groups whose obligation is also covered by another group with an ordinary encoding.
	OptionalUnsupported string
	// OptionalLoad: the harness of this group names unexported identifiers of the repository (a deepening
	// lemma). When it no longer compiles against the tree under test (a rename), the group is recorded as not
	// applicable with this reason instead of making the whole check inconclusive. Only for groups whose
	// property is also decided by a group that uses exported entry points only.
	OptionalLoad string
	// failure through a history of public calls, so an unconfirmed one is a lemma that does not fit, not an engine error
	Lemma  bool
	Solver string
	// PanicOK: panics on explored paths are not violations of this property (they are reported by C09/C08 harnesses)
	PanicOK bool
	// BudgetIsViolation: exhausting the instruction budget is a candidate non-termination (C08/C10)
	BudgetIsViolation bool
	Twin              bool // vacuity twin: expects at least one "fail" with message prefix "TWIN"
	TimeoutMs         int
	Workers           int
	Stubs             []string
	Race              bool // native replay runs under the race detector
}

type PropertySpec struct {
	ID          string
	Groups      []JobGroup
	Assumptions []string
	Rule        string
}

var properties = map[string]*PropertySpec{}

// thoroughUsesQuickBounds: see cmdCheck. Filled from the last complete thorough sweep (DESIGN 8.16).
var thoroughUsesQuickBounds = map[string]bool{
	"C01": true, "C04": true, "C07": true, "C08": true, "C10": true, "C16": true,
}

type ReplayFile struct {
	Property string              `json:"property"`
	Group    string              `json:"group"`
	Overlay  map[string][]string `json:"overlay"`
	Pkg      string              `json:"pkg"`
	Entry    string              `json:"entry"`
	Args     []int64             `json:"args"`
	Kind     string              `json:"kind"`
	Msg      string              `json:"msg"`
	Site     string              `json:"site"`
	Nondet   []NondetVal         `json:"nondet"`
	Notes    map[string]string   `json:"notes"`
	Sig      string              `json:"signature"`
	Race     bool                `json:"race,omitempty"`
	// AcceptPanic: the property also forbids crashes, so a native panic confirms a predicted assertion failure
	AcceptPanic bool `json:"accept_panic,omitempty"`
}

type jobResult struct {
	group *JobGroup
	args  []int64
	res   *ExploreResult
}

type knownFinding struct {
	Property string
	Key      string
	Parts    []string
	Text     string
	hit      int
}

func loadKnown() []*knownFinding {
	b, err := os.ReadFile(filepath.Join(verifRoot(), "known_findings.txt"))
	if err != nil {
		return nil
	}
	var out []*knownFinding
	// key={part}{part}...: every part must occur in the signature of the violation. Findings are keyed by
	// the failing INPUT (src=...) and the kind of failure, not by the function in which the failure surfaces,
	// so that moving code around neither hides nor re-reports them.
	re := regexp.MustCompile(`^known:\s+property=(\S+)\s+key=((?:\{.*?\})+)\s+(.*)$`)
	for _, line := range strings.Split(string(b), "\n") {
		line = strings.TrimSpace(line)
		if m := re.FindStringSubmatch(line); m != nil {
			parts := strings.Split(strings.TrimSuffix(strings.TrimPrefix(m[2], "{"), "}"), "}{")
			for i := range parts {
				// a trailing \x00 anchors a part at the end of the signature (src= is its last field)
				parts[i] = strings.ReplaceAll(parts[i], `\x00`, "\x00")
			}
			out = append(out, &knownFinding{Property: m[1], Key: m[2], Parts: parts, Text: m[3]})
		}
	}
	return out
}

func (k *knownFinding) matches(sig string) bool {
	for _, p := range k.Parts {
		if !strings.Contains(sig+"\x00", p) {
			return false
		}
	}
	return len(k.Parts) > 0
}

// signature identifies a violation by job group, kind, harness message and innermost repo function of a panic.
func signature(group string, o *Outcome) string {
	site := ""
	if o.Kind == "panic" || o.Kind == "budget" {
		site = innermostRepoFunc(o.Site)
	}
	msg := o.Msg
	if len(msg) > 120 {
		msg = msg[:120]
	}
	src := ""
	if o.Notes != nil {
		src = o.Notes["source"]
	}
	return fmt.Sprintf("group=%s kind=%s msg=%s at=%s src=%s", group, o.Kind, msg, site, src)
}

var reDigits = regexp.MustCompile(`\d+`)

func innermostRepoFunc(stack string) string {
	for _, fr := range strings.Split(stack, " <- ") {
		i := strings.LastIndex(fr, "@")
		if i < 0 {
			continue
		}
		fn := fr[:i]
		if strings.Contains(fn, "jmeaster30/vore") && !strings.Contains(fn, "Verif") && !strings.Contains(fn, ".v") {
			fn = strings.ReplaceAll(fn, "github.com/jmeaster30/vore/", "")
			return fn
		}
	}
	return ""
}

// checkDeadline bounds the wall-clock time of one check invocation; work not finished by then is
// reported as inconclusive (never as success).
var checkDeadline time.Time

func cmdCheck(argv []string) int {
	id := argv[0]
	fs := flag.NewFlagSet("check", flag.ExitOnError)
	tier := fs.String("tier", "quick", "quick|thorough")
	only := fs.String("only", "", "only run groups whose name contains this")
	verbose := fs.Bool("v", false, "verbose")
	noReplay := fs.Bool("noreplay", false, "skip native replay (development)")
	fs.Parse(argv[1:])
	if t := os.Getenv("VERIF_TIER"); t != "" && !flagSet(fs, "tier") {
		*tier = t
	}
	seed := int64(0)
	if s := os.Getenv("VERIF_SEED"); s != "" {
		seed, _ = strconv.ParseInt(s, 10, 64)
	}
	evidencePartial = *only != ""
	spec := properties[id]
	if spec == nil {
		fmt.Fprintf(os.Stderr, "unknown property %s\n", id)
		return 2
	}
	start := time.Now()
	if *tier == "thorough" {
		checkDeadline = start.Add(6 * time.Hour)
	} else {
		checkDeadline = start.Add(12 * time.Minute)
	}
	if d := os.Getenv("VERIF_DEADLINE_S"); d != "" {
		if n, err := strconv.Atoi(d); err == nil {
			checkDeadline = start.Add(time.Duration(n) * time.Second)
		}
	}
	// last resort: whatever keeps the process alive long after the deadline (a native replay that cannot be
	// killed, a wedged solver pipe), the check ends as inconclusive instead of hanging
	time.AfterFunc(time.Until(checkDeadline)+8*time.Minute, func() {
		fmt.Printf("INCONCLUSIVE property=%s watchdog: the check did not finish within its deadline plus 8 minutes\n", id)
		os.Exit(3)
	})
	known := loadKnown()
	workDir := filepath.Join(verifRoot(), "work", id)
	if v := os.Getenv("VERIF_REPO"); v != "" {
		// experiments on scratch copies may run next to each other and next to a registered run
		workDir = filepath.Join(verifRoot(), "work", "exp-"+strings.NewReplacer("/", "_").Replace(v)+"-"+id)
	}
	os.RemoveAll(workDir)
	os.MkdirAll(workDir, 0o755)
	defer os.RemoveAll(workDir)
	replayDir := filepath.Join(verifRoot(), "replays", id)
	if v := os.Getenv("VERIF_REPO"); v != "" {
		replayDir = filepath.Join(verifRoot(), "work", "replays-exp"+strings.NewReplacer("/", "_").Replace(v), id)
	}
	os.RemoveAll(replayDir)
	os.MkdirAll(replayDir, 0o755)

	ev := newEvidence(id, *tier, seed)
	// translator validation: the repository's own test inputs through native code and through gosym
	if os.Getenv("VERIF_SKIP_SELFTEST") == "" && *only == "" {
		n, mism, err := runSelftest(0, false)
		ev.SelftestPairs = n
		ev.SelftestMismatches = len(mism)
		if err != nil {
			fmt.Printf("INCONCLUSIVE property=%s selftest could not run: %v\n", id, err)
			ev.Incomplete = append(ev.Incomplete, "selftest could not run: "+err.Error())
			ev.write(time.Since(start).Seconds(), 0)
			return 3
		}
		if len(mism) > 0 {
			for i, m := range mism {
				if i < 5 {
					fmt.Println("SELFTEST-MISMATCH", m)
				}
			}
			fmt.Printf("INCONCLUSIVE property=%s the symbolic executor disagrees with the native build on %d of the repository's own test inputs\n", id, len(mism))
			ev.Incomplete = append(ev.Incomplete, "selftest mismatches")
			ev.write(time.Since(start).Seconds(), 0)
			return 3
		}
	}
	inconclusive := []string{}
	unprovedSeen := map[string]bool{}
	violations := []string{}
	knownHits := map[string]bool{}
	totalReplays := 0
	budgetReplays, skippedBudget := 0, 0

	// group jobs by overlay so that each distinct overlay is loaded once
	type loadedKey string
	loadedCache := map[loadedKey]*Loaded{}
	for gi := range spec.Groups {
		g := &spec.Groups[gi]
		if *only != "" && !strings.Contains(g.Name, *only) {
			continue
		}
		kb, _ := json.Marshal(g.Overlay)
		lk := loadedKey(string(kb) + "|" + g.Pkg)
		l := loadedCache[lk]
		if l == nil {
			ov, err := buildOverlay(g.Overlay)
			if err != nil {
				fmt.Fprintln(os.Stderr, "overlay:", err)
				return 3
			}
			t0 := time.Now()
			l, err = loadRepo(ov, []string{pkgImportPath(g.Pkg)})
			if err != nil && g.OptionalLoad != "" {
				fmt.Printf("NOTE property=%s group %s not applicable to this tree (harness does not compile: %s)\n", id, g.Name, g.OptionalLoad)
				ev.NotApplicable = append(ev.NotApplicable, fmt.Sprintf("%s: %s", g.Name, g.OptionalLoad))
				continue
			}
			if err != nil {
				// the repository (with harness) does not compile: the check cannot run
				fmt.Fprintf(os.Stderr, "INCONCLUSIVE property=%s load failed: %v\n", id, err)
				ev.Incomplete = append(ev.Incomplete, "load failed: "+err.Error())
				ev.write(time.Since(start).Seconds(), 0)
				return 3
			}
			ev.LoadS += time.Since(t0).Seconds()
			loadedCache[lk] = l
		}
		fn, err := l.fn(g.Pkg, g.Entry)
		if err != nil {
			fmt.Fprintln(os.Stderr, err)
			return 3
		}
		boundsTier := *tier
		if *tier == "thorough" && thoroughUsesQuickBounds[id] && os.Getenv("VERIF_THOROUGH_DEEP") == "" {
			// the deeper bounds of this property did not finish inside the session in which they were last
			// changed; registered is what ran clean: the quick bounds, with the thorough tier's time limits,
			// three-solver cross-check and replay budget (stated in the evidence)
			boundsTier = "quick"
		}
		argLists := g.Args(boundsTier, l)
		if seed != 0 && len(argLists) > 1 {
			// seed only permutes job order
			r := uint64(seed)
			for i := len(argLists) - 1; i > 0; i-- {
				r = r*6364136223846793005 + 1442695040888963407
				j := int(r>>33) % (i + 1)
				argLists[i], argLists[j] = argLists[j], argLists[i]
			}
		}
		results := runJobs(l, fn, g, argLists, *tier, *verbose)
		// solver cross-check: the cheapest completed jobs of the group are explored again with other SMT
		// solvers; the set of feasible paths (count per outcome) must be identical
		for _, d := range crossCheck(l, fn, g, results, *tier) {
			inconclusive = append(inconclusive, d)
		}
		ev.CrossJobs += crossJobs
		crossJobs = 0
		// passing paths are replayed natively too: the native side of the harness (and the model of the
		// environment) must agree with the symbolic run on inputs where nothing is wrong
		if !*noReplay && !g.Twin && os.Getenv("VERIF_NO_POSITIVE") == "" {
			var prfs []*ReplayFile
			perJob := 1
			for _, jr := range results {
				if len(prfs) >= 8 {
					break
				}
				for k, sm := range jr.res.Samples {
					if k >= perJob || sm.Kind != "ok" {
						break
					}
					prfs = append(prfs, &ReplayFile{Property: id, Group: g.Name, Overlay: g.Overlay, Pkg: g.Pkg, Entry: g.Entry, Args: jr.args, Kind: "ok", Nondet: sm.Nondet, Notes: sm.Notes, Race: false})
				}
			}
			if len(prfs) > 0 {
				nativeReplay(prfs, workDir)
				for i, st := range lastReplayStatus {
					ev.PositiveReplays++
					if st == "" || strings.HasPrefix(st, "PASS") || strings.HasPrefix(st, "ASSUMEFAILED") {
						if st == "" {
							ev.PositiveReplays--
						}
						continue
					}
					msg := fmt.Sprintf("NATIVE-DIFFERS %s%v: a path that passes symbolically fails natively (%s) notes=%s", g.Name, prfs[i].Args, strings.TrimSpace(st), notesStr(prfs[i].Notes))
					if len(msg) > 600 {
						msg = msg[:600]
					}
					inconclusive = append(inconclusive, msg)
				}
			}
		}
		// post-process
		twinSeen := false
		for _, jr := range results {
			res := jr.res
			ev.addJob(g, jr)
			if g.OptionalUnsupported != "" {
				na := false
				for i := range res.Outcomes {
					if res.Outcomes[i].Kind == "unsupported" && strings.Contains(res.Outcomes[i].Msg, g.OptionalUnsupported) {
						na = true
					}
				}
				if na {
					ev.NotApplicable = append(ev.NotApplicable, fmt.Sprintf("%s%v: %s", g.Name, jr.args, g.OptionalUnsupported))
					fmt.Printf("NOTE property=%s %s%v not applicable to this implementation: %s (the obligation is covered by the other groups)\n", id, g.Name, jr.args, g.OptionalUnsupported)
					kept := res.Outcomes[:0]
					for _, o := range res.Outcomes {
						if o.Kind != "unsupported" {
							kept = append(kept, o)
						}
					}
					res.Outcomes = kept
					res.Incomplete = ""
					res.Unknowns = 0
				}
			}
			if res.Incomplete != "" && !(g.Twin) {
				inconclusive = append(inconclusive, fmt.Sprintf("%s%v: %s", g.Name, jr.args, res.Incomplete))
			}
			if res.Unknowns > 0 {
				inconclusive = append(inconclusive, fmt.Sprintf("%s%v: %d solver unknowns", g.Name, jr.args, res.Unknowns))
			}
			// classify outcomes
			type cand struct {
				o   *Outcome
				sig string
			}
			bySig := map[string]*cand{}
			var order []string
			for i := range res.Outcomes {
				o := &res.Outcomes[i]
				switch o.Kind {
				case "unsupported":
					inconclusive = append(inconclusive, fmt.Sprintf("%s%v: unsupported: %s", g.Name, jr.args, o.Msg))
					continue
				case "unproved":
					msg := fmt.Sprintf("%s%v: UNPROVED %s", g.Name, jr.args, o.Msg)
					if !unprovedSeen[msg] {
						unprovedSeen[msg] = true
						inconclusive = append(inconclusive, msg)
					}
					continue
				case "budget":
					if !g.BudgetIsViolation {
						inconclusive = append(inconclusive, fmt.Sprintf("%s%v: unwinding budget exhausted at %s", g.Name, jr.args, innermostRepoFunc(o.Site)))
						continue
					}
				case "panic":
					if g.PanicOK {
						ev.PanicsIgnored++
						continue
					}
				case "fail":
					if g.Twin && strings.HasPrefix(o.Msg, "TWIN") {
						twinSeen = true
						continue
					}
				}
				sig := signature(g.Name, o)
				if _, ok := bySig[sig]; !ok {
					bySig[sig] = &cand{o, sig}
					order = append(order, sig)
				}
			}
			if len(order) == 0 {
				continue
			}
			sort.Strings(order)
			// replay distinct signatures natively; candidate hangs cost a native timeout each, so only the
			// first few per check are replayed (the rest are reported as not replayed = inconclusive)
			var rfs []*ReplayFile
			for _, sig := range order {
				c := bySig[sig]
				if c.o.Kind == "budget" {
					if budgetReplays >= 6 {
						skippedBudget++
						continue
					}
					budgetReplays++
				}
				rf := &ReplayFile{Property: id, Group: g.Name, Overlay: g.Overlay, Pkg: g.Pkg, Entry: g.Entry, Args: jr.args, Kind: c.o.Kind, Msg: c.o.Msg, Site: c.o.Site, Nondet: c.o.Nondet, Notes: c.o.Notes, Sig: sig, Race: g.Race, AcceptPanic: !g.PanicOK}
				rfs = append(rfs, rf)
			}
			var confirmed []bool
			if *noReplay {
				confirmed = make([]bool, len(rfs))
				for i := range confirmed {
					confirmed[i] = true
				}
			} else {
				confirmed = nativeReplay(rfs, workDir)
				totalReplays += len(rfs)
			}
			for i, rf := range rfs {
				if !confirmed[i] && g.Lemma {
					msg := fmt.Sprintf("LEMMA-NOT-CONFIRMED %s: the inductive step fails from a constructed state (%s) but no history of public calls around it shows wrong behaviour; the representation invariant the harness assumes does not fit this implementation, so the unbounded part of the claim is lost", g.Name, rf.Msg)
					if !unprovedSeen[msg] {
						unprovedSeen[msg] = true
						inconclusive = append(inconclusive, msg)
					}
					continue
				}
				if !confirmed[i] {
					inconclusive = append(inconclusive, fmt.Sprintf("ENGINE-MISMATCH %s: model does not reproduce natively (%s)", rf.Sig, rf.Msg))
					fmt.Printf("ENGINE-MISMATCH property=%s %s notes=%v\n", id, rf.Sig, rf.Notes)
					continue
				}
				// known finding?
				var kf *knownFinding
				for _, k := range known {
					if k.Property == id && k.matches(rf.Sig) {
						kf = k
						break
					}
				}
				if kf != nil {
					kf.hit++
					if os.Getenv("VERIF_SHOW_KNOWN") != "" {
						fmt.Printf("KNOWN-HIT %s | %s\n", rf.Sig, notesStr(rf.Notes))
					}
					if !knownHits[kf.Key] {
						knownHits[kf.Key] = true
						fmt.Printf("KNOWN-FINDING: property=%s %s (e.g. %s)\n", id, kf.Text, notesStr(rf.Notes))
					}
					ev.KnownHits++
					continue
				}
				path := filepath.Join(replayDir, fmt.Sprintf("%s-%d.json", sanitize(g.Name), len(violations)))
				b, _ := json.MarshalIndent(rf, "", " ")
				os.WriteFile(path, b, 0o644)
				violations = append(violations, path)
				fmt.Printf("VIOLATION property=%s replay=%s\n", id, path)
				fmt.Printf("  %s\n  notes: %s\n", rf.Sig, notesStr(rf.Notes))
				ev.addViolation(rf)
			}
		}
		if g.Twin && !twinSeen {
			inconclusive = append(inconclusive, g.Name+": vacuity twin not reached (harness assertions may be unreachable)")
		}
	}
	if skippedBudget > 0 {
		inconclusive = append(inconclusive, fmt.Sprintf("%d further candidate non-terminations were not replayed natively (cap of 6 per run)", skippedBudget))
	}
	ev.Replays = totalReplays
	ev.Inconclusive = inconclusive
	ev.write(time.Since(start).Seconds(), len(violations))
	if len(violations) > 0 {
		return 1
	}
	if len(inconclusive) > 0 {
		for i, s := range inconclusive {
			if i >= 20 {
				fmt.Printf("... %d more\n", len(inconclusive)-i)
				break
			}
			fmt.Printf("INCONCLUSIVE property=%s %s\n", id, s)
		}
		return 3
	}
	fmt.Printf("OK property=%s tier=%s paths=%d jobs=%d queries=%d solver_s=%.1f wall_s=%.1f known_findings=%d\n", id, *tier, ev.Paths, ev.Jobs, ev.Queries, ev.SolverS, time.Since(start).Seconds(), len(knownHits))
	return 0
}

func notesStr(n map[string]string) string {
	keys := make([]string, 0, len(n))
	for k := range n {
		keys = append(keys, k)
	}
	sort.Strings(keys)
	var sb strings.Builder
	for _, k := range keys {
		fmt.Fprintf(&sb, "%s=%q ", k, n[k])
	}
	return strings.TrimSpace(sb.String())
}

func sanitize(s string) string {
	return regexp.MustCompile(`[^A-Za-z0-9_.-]`).ReplaceAllString(s, "_")
}

func flagSet(fs *flag.FlagSet, name string) bool {
	set := false
	fs.Visit(func(f *flag.Flag) {
		if f.Name == name {
			set = true
		}
	})
	return set
}

// runJobs explores all argument tuples of a group, several jobs in parallel.
func runJobs(l *Loaded, fn *ssa.Function, g *JobGroup, argLists [][]int64, tier string, verbose bool) []jobResult {
	ncpu := runtime.NumCPU()
	if ncpu > 16 {
		ncpu = 16
	}
	initCPUTokens(ncpu)
	par := ncpu
	workersPer := ncpu
	if g.Workers > 0 {
		workersPer = g.Workers
	}
	// deepening groups (inductive lemmas, white-box harnesses) may not eat the time of the groups that decide
	// the property through its public interface: they get a share of the check's time, the rest is reported
	// as not covered
	var groupDeadline time.Time
	if g.Lemma || g.OptionalUnsupported != "" || g.OptionalLoad != "" {
		share := 3 * time.Minute
		if tier == "thorough" {
			share = 60 * time.Minute
		}
		groupDeadline = time.Now().Add(share)
	}
	results := make([]jobResult, len(argLists))
	sem := make(chan struct{}, par)
	var wg sync.WaitGroup
	for i, xs := range argLists {
		wg.Add(1)
		sem <- struct{}{}
		go func(i int, xs []int64) {
			defer wg.Done()
			defer func() { <-sem }()
			args, err := intArgs(fn, xs)
			if err != nil {
				results[i] = jobResult{g, xs, &ExploreResult{Incomplete: err.Error(), Counts: map[string]int64{}}}
				return
			}
			budget := g.Budget
			if budget == 0 {
				budget = 20_000_000
			}
			solver := g.Solver
			if solver == "" {
				solver = "z3"
			}
			to := g.TimeoutMs
			if to == 0 {
				to = 60000
				if tier == "thorough" {
					to = 300000
				}
			}
			// every job also has its own wall-clock limit so that one exploding job cannot starve the others
			jobLimit := 200 * time.Second
			if tier == "thorough" {
				jobLimit = 45 * time.Minute
			}
			dl := time.Now().Add(jobLimit)
			if !checkDeadline.IsZero() && checkDeadline.Before(dl) {
				dl = checkDeadline
			}
			if !groupDeadline.IsZero() && groupDeadline.Before(dl) {
				dl = groupDeadline
			}
			maxFail := g.MaxFailures
			if maxFail == 0 {
				maxFail = 5000
			}
			res := Explore(l.prog, fn, args, ExploreOpts{Workers: workersPer, Solver: solver, TimeoutMs: to, Budget: budget, MaxPaths: g.MaxPaths, MaxFailures: maxFail, Verbose: false, Deadline: dl})
			if verbose {
				fmt.Fprintf(os.Stderr, "job %s%v: paths=%d %v wall=%.1fs\n", g.Name, xs, res.Paths, res.Counts, res.WallS)
			}
			results[i] = jobResult{g, xs, res}
		}(i, xs)
	}
	wg.Wait()
	return results
}

var crossJobs int

// crossCheck re-explores up to k completed jobs of a group with the other installed solvers (z3 5.1.0, and
// cvc5 1.0 in the thorough tier) and reports every difference in the number of feasible paths per outcome.
func crossCheck(l *Loaded, fn *ssa.Function, g *JobGroup, results []jobResult, tier string) []string {
	if os.Getenv("VERIF_NO_CROSSCHECK") != "" {
		return nil
	}
	k, limit := 1, int64(3000)
	solvers := []string{"z3-new"}
	if tier == "thorough" {
		k, limit = 3, 30000
		solvers = []string{"z3-new", "cvc5"}
	}
	idx := []int{}
	for i, jr := range results {
		r := jr.res
		if r == nil || r.Incomplete != "" || r.Unknowns > 0 || r.Paths == 0 || r.Paths > limit {
			continue
		}
		idx = append(idx, i)
	}
	sort.SliceStable(idx, func(a, b int) bool { return results[idx[a]].res.Paths > results[idx[b]].res.Paths })
	// the largest jobs under the limit say the most
	if len(idx) > k {
		idx = idx[:k]
	}
	var out []string
	for _, i := range idx {
		jr := results[i]
		args, err := intArgs(fn, jr.args)
		if err != nil {
			continue
		}
		for _, sv := range solvers {
			if !checkDeadline.IsZero() && time.Now().After(checkDeadline) {
				return out
			}
			budget := g.Budget
			if budget == 0 {
				budget = 20_000_000
			}
			dl := time.Now().Add(10 * time.Minute)
			if !checkDeadline.IsZero() && checkDeadline.Before(dl) {
				dl = checkDeadline
			}
			res := Explore(l.prog, fn, args, ExploreOpts{Workers: runtime.NumCPU(), Solver: sv, TimeoutMs: 60000, Budget: budget, MaxPaths: g.MaxPaths, MaxFailures: 5000, Deadline: dl})
			crossJobs++
			if res.Incomplete != "" || res.Unknowns > 0 {
				// the second solver could not finish: nothing to compare (not counted as agreement)
				crossJobs--
				continue
			}
			same := res.Paths == jr.res.Paths && len(res.Counts) == len(jr.res.Counts)
			for kk, v := range jr.res.Counts {
				if res.Counts[kk] != v {
					same = false
				}
			}
			if !same {
				out = append(out, fmt.Sprintf("SOLVER-DISAGREEMENT %s%v: z3 4.8.12 paths=%d %v, %s paths=%d %v", g.Name, jr.args, jr.res.Paths, jr.res.Counts, sv, res.Paths, res.Counts))
			}
		}
	}
	return out
}

// ---- native replay ----

func goEnv() []string {
	env := []string{}
	for _, e := range os.Environ() {
		if strings.HasPrefix(e, "GOFLAGS=") || strings.HasPrefix(e, "GOWORK=") {
			continue
		}
		env = append(env, e)
	}
	return append(env, "GOFLAGS=", "GOWORK="+repoRoot+"/go.work", "GOPROXY=off", "GOSUMDB=off", "GOTOOLCHAIN=local")
}

// nativeReplay runs the vectors against the natively compiled real code. All files must share
// the same overlay/pkg/entry (one group, one job).
// lastReplayStatus[i] is the raw outcome line of vector i in the last nativeReplay call ("PASS", "PANIC …", "")
var lastReplayStatus []string

func nativeReplay(rfs []*ReplayFile, workDir string) []bool {
	confirmed := make([]bool, len(rfs))
	lastReplayStatus = make([]string, len(rfs))
	if len(rfs) == 0 {
		return confirmed
	}
	rf0 := rfs[0]
	dir := filepath.Join(workDir, fmt.Sprintf("replay%d", time.Now().UnixNano()))
	os.MkdirAll(dir, 0o755)
	defer os.RemoveAll(dir)
	ov, err := buildOverlay(rf0.Overlay)
	if err != nil {
		return confirmed
	}
	replace := map[string]string{}
	n := 0
	for vpath, content := range ov {
		real := filepath.Join(dir, fmt.Sprintf("f%d.go", n))
		n++
		os.WriteFile(real, content, 0o644)
		replace[vpath] = real
	}
	pkgDir := filepath.Join(repoRoot, pkgDirs[rf0.Pkg])
	goPkg := rf0.Pkg
	testPkg := goPkg
	var tb strings.Builder
	fmt.Fprintf(&tb, "package %s\n\nimport (\n\t\"fmt\"\n\t\"os\"\n\t\"testing\"\n)\n\n", testPkg)
	tb.WriteString("func vReplayOne(i int, vals []uint64, f func()) {\n\tvReplayVals = vals\n\tvReplayPos = 0\n\tdefer func() {\n\t\tr := recover()\n\t\tif r == nil {\n\t\t\tfmt.Printf(\"VREPLAY %d PASS\\n\", i)\n\t\t\treturn\n\t\t}\n\t\tif _, ok := r.(vAssumeFailed); ok {\n\t\t\tfmt.Printf(\"VREPLAY %d ASSUMEFAILED\\n\", i)\n\t\t\treturn\n\t\t}\n\t\tfmt.Printf(\"VREPLAY %d PANIC %v\\n\", i, r)\n\t}()\n\tf()\n}\n\n")
	tb.WriteString("func TestVerifReplay(t *testing.T) {\n\tsel := os.Getenv(\"VREPLAY_ONLY\")\n")
	for i, rf := range rfs {
		var vals []string
		for _, nv := range rf.Nondet {
			vals = append(vals, fmt.Sprintf("%d", nv.V))
		}
		var as []string
		for _, a := range rf.Args {
			as = append(as, fmt.Sprintf("%d", a))
		}
		fmt.Fprintf(&tb, "\tif sel == \"\" || sel == \"%d\" {\n\t\tvReplayOne(%d, []uint64{%s}, func() { %s(%s) })\n\t}\n", i, i, strings.Join(vals, ","), rf.Entry, strings.Join(as, ","))
	}
	tb.WriteString("}\n")
	testReal := filepath.Join(dir, "replay_test.go")
	os.WriteFile(testReal, []byte(tb.String()), 0o644)
	replace[filepath.Join(pkgDir, "zz_verif_replay_test.go")] = testReal
	ovb, _ := json.Marshal(map[string]interface{}{"Replace": replace})
	ovPath := filepath.Join(dir, "overlay.json")
	os.WriteFile(ovPath, ovb, 0o644)

	voreBin := ""
	if rf0.Pkg == "main" {
		// the CLI harness replays against the built binary
		voreBin = filepath.Join(dir, "vore-under-test")
		b := exec.Command("go", "build", "-o", voreBin, ".")
		b.Dir = repoRoot
		b.Env = goEnv()
		if out, err := b.CombinedOutput(); err != nil {
			fmt.Fprintf(os.Stderr, "replay: building the vore binary failed: %v\n%s\n", err, out)
		}
	}
	run := func(only string, timeout time.Duration) (string, bool) {
		args := []string{"test", "-v", "-vet=off", "-count=1"}
		if rf0.Race {
			args = append(args, "-race")
		}
		args = append(args, "-overlay", ovPath, "-run", "^TestVerifReplay$", "-timeout", fmt.Sprintf("%ds", int(timeout.Seconds())), ".")
		cmd := exec.Command("go", args...)
		cmd.Dir = pkgDir
		cmd.Env = append(goEnv(), "VREPLAY_ONLY="+only, "VORE_BIN="+voreBin)
		var out bytes.Buffer
		cmd.Stdout = &out
		cmd.Stderr = &out
		err := cmd.Run()
		return out.String(), err == nil
	}
	// vectors whose failure is non-termination are run one by one under a timeout
	var normal []int
	for i, rf := range rfs {
		if rf.Kind == "budget" {
			out, _ := run(strconv.Itoa(i), 20*time.Second)
			if strings.Contains(out, "test timed out") || strings.Contains(out, "out of memory") || strings.Contains(out, "fatal error") {
				confirmed[i] = true
			}
		} else {
			normal = append(normal, i)
		}
	}
	if len(normal) > 0 {
		out, _ := run("", 300*time.Second)
		raceSeen := strings.Contains(out, "WARNING: DATA RACE")
		for _, i := range normal {
			rf := rfs[i]
			if rf.Race && raceSeen {
				confirmed[i] = true
				continue
			}
			re := regexp.MustCompile(fmt.Sprintf(`(?m)^VREPLAY %d (\w+)(.*)$`, i))
			m := re.FindStringSubmatch(out)
			if m == nil {
				// a fatal error (stack overflow etc.) kills the process: rerun alone
				o2, _ := run(strconv.Itoa(i), 60*time.Second)
				if strings.Contains(o2, "fatal error") || strings.Contains(o2, "test timed out") {
					confirmed[i] = rf.Kind == "panic" || rf.Kind == "budget"
				} else if m2 := re.FindStringSubmatch(o2); m2 != nil {
					m = m2
				} else if os.Getenv("GOSYM_REPLAYDEBUG") != "" {
					fmt.Fprintln(os.Stderr, o2)
				}
			}
			if m == nil {
				continue
			}
			lastReplayStatus[i] = m[1] + m[2]
			switch m[1] {
			case "PANIC":
				if rf.Kind == "fail" {
					// the native run must fail with the predicted assertion (a different native failure means the
					// model and the real run disagree: inconclusive), or crash where the property forbids crashes
					want := rf.Msg
					if len(want) > 100 {
						want = want[:100]
					}
					if strings.Contains(m[2], "VERIF-FAIL") {
						confirmed[i] = strings.Contains(m[2], "VERIF-FAIL: "+want)
						if !confirmed[i] {
							fmt.Printf("NATIVE-DIFFERS predicted %q, native run fails with%s\n", rf.Msg, m[2])
						}
					} else {
						confirmed[i] = rf.AcceptPanic
					}
				} else {
					confirmed[i] = !strings.Contains(m[2], "VERIF-FAIL")
				}
			}
		}
		if os.Getenv("GOSYM_REPLAYDEBUG") != "" {
			fmt.Fprintln(os.Stderr, out)
		}
	}
	return confirmed
}

func cmdReplay(argv []string) int {
	if len(argv) < 1 {
		fmt.Fprintln(os.Stderr, "usage: vcheck replay <file>")
		return 2
	}
	b, err := os.ReadFile(argv[0])
	if err != nil {
		fmt.Fprintln(os.Stderr, err)
		return 2
	}
	var rf ReplayFile
	if err := json.Unmarshal(b, &rf); err != nil {
		fmt.Fprintln(os.Stderr, err)
		return 2
	}
	workDir := filepath.Join(verifRoot(), "work", "replay-"+rf.Property)
	os.MkdirAll(workDir, 0o755)
	defer os.RemoveAll(workDir)
	os.Setenv("GOSYM_REPLAYDEBUG", "1")
	ok := nativeReplay([]*ReplayFile{&rf}, workDir)
	fmt.Printf("property=%s %s\nnotes: %s\n", rf.Property, rf.Sig, notesStr(rf.Notes))
	if ok[0] {
		fmt.Printf("REPRODUCED natively: %s %s\n", rf.Kind, rf.Msg)
		return 1
	}
	fmt.Println("not reproduced")
	return 0
}
