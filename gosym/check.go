package main

func cmdCheck(argv []string) int  { return 2 }
func cmdReplay(argv []string) int { return 2 }
