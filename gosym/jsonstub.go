package main

// Abstract codec for encoding/json (DESIGN §1.3, C17): Marshal / MarshalIndent are replaced by a
// type-directed encoder that honours the json.Marshaler contract — a value whose type has a
// MarshalJSON method is rendered by CALLING that method (the real repository code, executed
// symbolically) — and renders maps (sorted keys), slices, strings, integers and booleans the way the
// standard library documents. Symbolic string bytes are escaped by forking on the escape class of
// each byte. Byte-level fidelity with the real encoder (HTML escaping details, invalid UTF-8,
// floating point) is outside the claim.

import (
	"fmt"
	"go/types"
	"reflect"
	"sort"
	"strings"

	"golang.org/x/tools/go/ssa"
)

func (m *Machine) jsonEscape(fr *frame, s str) str {
	out := []*Term{mkConst(8, '"')}
	lit := func(x string) {
		for i := 0; i < len(x); i++ {
			out = append(out, mkConst(8, uint64(x[i])))
		}
	}
	for _, b := range s.bytes() {
		is := func(c byte) bool { return m.branch(mkEq(b, mkConst(8, uint64(c))), fr) }
		switch {
		case is('"'):
			lit("\\\"")
		case is('\\'):
			lit("\\\\")
		case is('\n'):
			lit("\\n")
		case is('\r'):
			lit("\\r")
		case is('\t'):
			lit("\\t")
		case m.branch(mkCmp(opUlt, b, mkConst(8, 0x20)), fr):
			// \u00XX with the two hex digits of the byte
			lit("\\u00")
			hexDigit := func(n *Term) *Term { // n in 0..15 (4-bit value zero-extended to 8)
				return mkIte(mkCmp(opUlt, n, mkConst(8, 10)), mkBin(opAdd, n, mkConst(8, '0')), mkBin(opAdd, n, mkConst(8, 'a'-10)))
			}
			out = append(out, hexDigit(mkBin(opLshr, b, mkConst(8, 4))), hexDigit(mkBin(opBvand, b, mkConst(8, 15))))
		case is('<'):
			lit("\\u003c")
		case is('>'):
			lit("\\u003e")
		case is('&'):
			lit("\\u0026")
		default:
			out = append(out, b)
		}
	}
	out = append(out, mkConst(8, '"'))
	return mkStr(out)
}

type jsonEnc struct {
	m      *Machine
	fr     *frame
	indent bool
	depth  int
	out    str
	err    value
}

func (e *jsonEnc) lit(s string) { e.out = concatStr(e.out, str{s: s}) }

func (e *jsonEnc) nl() {
	if e.indent {
		e.lit("\n")
		for i := 0; i < e.depth; i++ {
			e.lit("\t")
		}
	}
}

func (e *jsonEnc) marshalerMethod(t types.Type) *ssa.Function {
	ms := e.m.prog.MethodSets.MethodSet(t)
	for i := 0; i < ms.Len(); i++ {
		sel := ms.At(i)
		if sel.Obj().Name() == "MarshalJSON" {
			progMu.Lock()
			f := e.m.prog.MethodValue(sel)
			progMu.Unlock()
			return f
		}
	}
	return nil
}

func (e *jsonEnc) encode(t types.Type, v value) {
	if e.err != nil {
		return
	}
	if t == nil {
		e.lit("null")
		return
	}
	if _, isIface := t.Underlying().(*types.Interface); !isIface {
		if f := e.marshalerMethod(t); f != nil {
			res := e.m.call(f, []value{v}, e.fr, nil).(tuple)
			if ev, ok := res[1].(iface); ok && ev.t != nil {
				e.err = res[1]
				return
			}
			raw := res[0].(slice)
			bs := byteSliceToTerms(raw)
			e.out = concatStr(e.out, mkStr(bs))
			return
		}
	}
	switch u := t.Underlying().(type) {
	case *types.Interface:
		iv, ok := v.(iface)
		if !ok || iv.t == nil {
			e.lit("null")
			return
		}
		e.encode(iv.t, iv.v)
	case *types.Basic:
		switch x := v.(type) {
		case str:
			e.out = concatStr(e.out, e.m.jsonEscape(e.fr, x))
		case *Term:
			if x.w == 0 {
				if e.m.branch(x, e.fr) {
					e.lit("true")
				} else {
					e.lit("false")
				}
				return
			}
			c := e.m.concInt(x, e.fr)
			_, signed, _ := typeWidth(u)
			if signed {
				e.lit(fmt.Sprint(c))
			} else {
				e.lit(fmt.Sprint(uint64(c) & mask(x.w)))
			}
		default:
			panic(unsupported("json: basic value " + t.String()))
		}
	case *types.Map:
		mp, _ := v.(*mapObj)
		if mp == nil {
			e.lit("null")
			return
		}
		type kv struct {
			k string
			v value
		}
		var kvs []kv
		for i, k := range mp.keys {
			if mp.dead[i] {
				continue
			}
			ks, ok := k.(str)
			if !ok {
				panic(unsupported("json: non-string map key"))
			}
			c, conc := ks.concrete()
			if !conc {
				panic(unsupported("json: symbolic map key"))
			}
			kvs = append(kvs, kv{c, mp.vals[i]})
		}
		sort.Slice(kvs, func(i, j int) bool { return kvs[i].k < kvs[j].k })
		e.lit("{")
		e.depth++
		for i, p := range kvs {
			if i > 0 {
				e.lit(",")
			}
			e.nl()
			e.out = concatStr(e.out, e.m.jsonEscape(e.fr, str{s: p.k}))
			e.lit(":")
			if e.indent {
				e.lit(" ")
			}
			e.encode(u.Elem(), p.v)
		}
		e.depth--
		if len(kvs) > 0 {
			e.nl()
		}
		e.lit("}")
	case *types.Slice:
		s, _ := v.(slice)
		if s.isNil() {
			e.lit("null")
			return
		}
		e.lit("[")
		e.depth++
		if s.len > 0 {
			arr := s.arr()
			for i := 0; i < s.len; i++ {
				if i > 0 {
					e.lit(",")
				}
				e.nl()
				e.encode(u.Elem(), arr[s.off+i])
			}
		}
		e.depth--
		if s.len > 0 {
			e.nl()
		}
		e.lit("]")
	case *types.Pointer:
		p := v.(pointer)
		if p.isNil() {
			e.lit("null")
			return
		}
		e.encode(u.Elem(), e.fr.load(p))
	case *types.Struct:
		st := v.(structure)
		e.lit("{")
		e.depth++
		first := true
		for i := 0; i < u.NumFields(); i++ {
			f := u.Field(i)
			if !f.Exported() {
				continue
			}
			name, omitEmpty, skip := jsonFieldTag(u.Tag(i), f.Name())
			if skip {
				continue
			}
			if f.Embedded() {
				panic(unsupported("json: embedded struct field " + f.Name()))
			}
			if omitEmpty && e.isEmptyValue(f.Type(), st[i]) {
				continue
			}
			if !first {
				e.lit(",")
			}
			first = false
			e.nl()
			e.out = concatStr(e.out, e.m.jsonEscape(e.fr, str{s: name}))
			e.lit(":")
			if e.indent {
				e.lit(" ")
			}
			e.encode(f.Type(), st[i])
		}
		e.depth--
		if !first {
			e.nl()
		}
		e.lit("}")
	default:
		panic(unsupported("json: type " + t.String()))
	}
}

// jsonFieldTag reads a `json:"name,omitempty"` struct tag the way encoding/json documents it.
func jsonFieldTag(tag string, fieldName string) (name string, omitEmpty bool, skip bool) {
	name = fieldName
	v, ok := reflect.StructTag(tag).Lookup("json")
	if !ok {
		return
	}
	if v == "-" {
		return name, false, true
	}
	parts := strings.Split(v, ",")
	if parts[0] != "" {
		name = parts[0]
	}
	for _, o := range parts[1:] {
		switch o {
		case "omitempty":
			omitEmpty = true
		case "string":
			panic(unsupported("json: ,string option"))
		}
	}
	return
}

// isEmptyValue: false, 0, a nil pointer, a nil interface value, and any empty array, slice, map, or string.
func (e *jsonEnc) isEmptyValue(t types.Type, v value) bool {
	switch u := t.Underlying().(type) {
	case *types.Basic:
		switch x := v.(type) {
		case str:
			return x.length() == 0
		case *Term:
			if x.w == 0 {
				return !e.m.branch(x, e.fr)
			}
			return e.m.branch(mkEq(x, mkConst(x.w, 0)), e.fr)
		}
	case *types.Pointer:
		p, ok := v.(pointer)
		return !ok || p.isNil()
	case *types.Interface:
		iv, ok := v.(iface)
		return !ok || iv.t == nil
	case *types.Slice:
		sl, ok := v.(slice)
		return !ok || sl.len == 0
	case *types.Map:
		mp, _ := v.(*mapObj)
		if mp == nil {
			return true
		}
		n := 0
		for i := range mp.keys {
			if !mp.dead[i] {
				n++
			}
		}
		return n == 0
	case *types.Array:
		return u.Len() == 0
	}
	return false
}

func (m *Machine) jsonMarshal(fr *frame, arg value, indent bool) value {
	e := &jsonEnc{m: m, fr: fr, indent: indent}
	iv := arg.(iface)
	e.encode(iv.t, iv.v)
	if e.err != nil {
		return tuple{slice{}, e.err}
	}
	bs := e.out.bytes()
	a := make(array, len(bs))
	for i, b := range bs {
		a[i] = b
	}
	obj := m.newObject(a, nil)
	return tuple{slice{obj: obj, len: len(a), cap: len(a)}, iface{}}
}

func init() {
	stubs["encoding/json.Marshal"] = func(m *Machine, fr *frame, fn *ssa.Function, args []value) value {
		return m.jsonMarshal(fr, args[0], false)
	}
	stubs["encoding/json.MarshalIndent"] = func(m *Machine, fr *frame, fn *ssa.Function, args []value) value {
		return m.jsonMarshal(fr, args[0], true)
	}
}
