package main

import (
	"fmt"
	"go/types"
	"sync"

	"golang.org/x/tools/go/ssa"
)

// Two-thread symbolic scheduler (C19).
//
// vPar(f, g) runs the closures f and g as two threads of the program under test. A thread runs until
// it reaches a synchronisation point — before acquiring a mutex, after releasing one, before an atomic
// operation, at its end. There the scheduler asks a fresh symbolic boolean ("switch to the other thread
// now?"); the path explorer forks on it like on any other symbolic branch, so every interleaving of the
// synchronisation points of the two threads is explored. For programs without data races (the lockset
// analysis reports those separately) interleavings at synchronisation points are all the behaviours
// there are. A thread that needs a mutex held by the other thread blocks; if nobody can run the path
// ends as a deadlock.
//
// Each thread body runs on its own goroutine (the interpreter is recursive), but exactly one of them —
// or the goroutine that called vPar — runs at any time: control is handed over through channels.

type thread struct {
	id     int
	resume chan bool // true: run; false: abort (unwind and exit)
	done   bool
	// thread-local interpreter state, saved while the thread is not running
	curFrame      *frame
	recoverTarget []*frame
	heldLocks     map[string]int
	syncDepth     int
	waitingFor    string
}

type scheduler struct {
	threads     []*thread
	cur         int // index of the running thread
	lockOwner   map[string]int
	rlocks      map[string]map[int]int
	mainWake    chan struct{}
	err         interface{}
	switches    int
	siteCount   map[string]int
	skipped     int
	preemptions int
	points      int
	wg          sync.WaitGroup
}

type threadAbort struct{}

// maxPreemptions bounds the number of voluntary context switches per explored schedule (preemption
// bounding, Musuvathi & Qadeer 2007): every schedule with at most this many preemptions is explored;
// switches forced by a blocked or finished thread are free. The bound is part of the stated claim.
const maxPreemptions = 2

// maxPerSite: see syncPoint.
const maxPerSite = 2

func (m *Machine) saveThread(t *thread) {
	t.curFrame, t.recoverTarget, t.heldLocks, t.syncDepth = m.curFrame, m.recoverTarget, m.heldLocks, m.syncDepth
}

func (m *Machine) loadThread(t *thread) {
	m.curFrame, m.recoverTarget, m.heldLocks, m.syncDepth = t.curFrame, t.recoverTarget, t.heldLocks, t.syncDepth
}

// runnable reports whether thread t could make a step now.
func (s *scheduler) runnable(t *thread) bool {
	if t.done {
		return false
	}
	if t.waitingFor != "" {
		if o, held := s.lockOwner[t.waitingFor]; held && o != t.id {
			return false
		}
	}
	return true
}

// switchTo hands control from the running thread to thread `to` and returns when this thread is
// resumed.
func (m *Machine) switchTo(to *thread) {
	s := m.sched
	me := s.threads[s.cur]
	m.saveThread(me)
	s.cur = to.id
	s.switches++
	m.loadThread(to)
	to.resume <- true
	if ok := <-me.resume; !ok {
		panic(threadAbort{})
	}
	// the thread that resumed us has already loaded our state
}

// syncPoint: a place where the other thread may be scheduled.
func (m *Machine) syncPoint(fr *frame, what string) {
	s := m.sched
	if s == nil || m.syncDepth > 0 {
		return
	}
	other := s.threads[1-s.cur]
	if !s.runnable(other) {
		return
	}
	s.points++
	if s.preemptions >= maxPreemptions {
		return
	}
	// a synchronisation call site inside a loop is reached again and again with the same pattern: each
	// (thread, call site) offers a preemption only the first maxPerSite times it is reached
	site := fmt.Sprintf("%d@%s", s.cur, fr.pos())
	if s.siteCount == nil {
		s.siteCount = map[string]int{}
	}
	if s.siteCount[site] >= maxPerSite {
		s.skipped++
		return
	}
	s.siteCount[site]++
	c := m.newNondet("sched:"+what, 0)
	if m.branch(c, fr) {
		s.preemptions++
		m.switchTo(other)
	}
}

// acquire blocks (switches to the other thread) while the mutex is held by the other thread.
func (m *Machine) schedAcquire(fr *frame, key string, shared bool) {
	s := m.sched
	me := s.threads[s.cur]
	m.syncPoint(fr, "before lock")
	for {
		o, held := s.lockOwner[key]
		readers := 0
		for id, n := range s.rlocks[key] {
			if id != me.id {
				readers += n
			}
		}
		if (!held || o == me.id) && (shared || readers == 0) {
			break
		}
		other := s.threads[1-s.cur]
		me.waitingFor = key
		if other.done || (other.waitingFor != "" && !s.runnable(other)) {
			panic(pathEnd{kind: "fail", msg: "deadlock: both calls wait for a mutex at " + fr.pos(), site: fr.stack()})
		}
		m.switchTo(other)
		me.waitingFor = ""
	}
	if shared {
		if s.rlocks[key] == nil {
			s.rlocks[key] = map[int]int{}
		}
		s.rlocks[key][me.id]++
	} else {
		s.lockOwner[key] = me.id
	}
}

func (m *Machine) schedRelease(fr *frame, key string, shared bool) {
	s := m.sched
	me := s.threads[s.cur]
	if shared {
		if s.rlocks[key][me.id] > 0 {
			s.rlocks[key][me.id]--
		}
	} else {
		delete(s.lockOwner, key)
	}
	m.syncPoint(fr, "after unlock")
}

// sync.Pool model: a LIFO free list per pool (the behaviour of the real pool within one P when no GC
// intervenes, which is the behaviour that exposes stale state in recycled objects). An object that is
// in the pool is owned by nobody: putting it a second time (two later Gets would hand the same object to
// two calls) and touching it after Put are reported as failures by the concurrency harnesses (C19, where
// shared-memory tracking is switched on); they are harmless in a sequential run and ignored elsewhere.
type poolState struct {
	free []value
}

func poolObjOf(v value) *object {
	switch v := v.(type) {
	case iface:
		return poolObjOf(v.v)
	case pointer:
		return v.obj
	}
	return nil
}

func init() {
	poolKey := func(v value) string {
		p := v.(pointer)
		if p.obj.global != nil {
			return p.obj.global.String() + fmt.Sprint(p.path)
		}
		return fmt.Sprintf("obj%d%v", p.obj.id, p.path)
	}
	stubs["(*sync.Pool).Get"] = func(m *Machine, fr *frame, fn *ssa.Function, args []value) value {
		if m.sched != nil {
			m.syncPoint(fr, "before Pool.Get")
		}
		k := poolKey(args[0])
		if m.pools == nil {
			m.pools = map[string]*poolState{}
		}
		ps := m.pools[k]
		if ps != nil && len(ps.free) > 0 {
			v := ps.free[len(ps.free)-1]
			ps.free = ps.free[:len(ps.free)-1]
			if o := poolObjOf(v); o != nil {
				delete(m.pooled, o)
			}
			return v
		}
		// New field
		p := args[0].(pointer)
		st := fn.Signature.Recv().Type().Underlying().(*types.Pointer).Elem().Underlying().(*types.Struct)
		for i := 0; i < st.NumFields(); i++ {
			if st.Field(i).Name() == "New" {
				nf := fr.load(pointer{obj: p.obj, path: extPath(p.path, i)})
				if nf == nil {
					return iface{}
				}
				if c, ok := nf.(*closure); ok && c == nil {
					return iface{}
				}
				return m.call(nf, nil, fr, nil)
			}
		}
		panic(unsupported("sync.Pool without field New"))
	}
	stubs["(*sync.Pool).Put"] = func(m *Machine, fr *frame, fn *ssa.Function, args []value) value {
		if m.sched != nil {
			m.syncPoint(fr, "before Pool.Put")
		}
		k := poolKey(args[0])
		if m.pools == nil {
			m.pools = map[string]*poolState{}
		}
		if m.pooled == nil {
			m.pooled = map[*object]string{}
		}
		ps := m.pools[k]
		if ps == nil {
			ps = &poolState{}
			m.pools[k] = ps
		}
		if o := poolObjOf(args[1]); o != nil {
			if at, dup := m.pooled[o]; dup && m.trackShared {
				panic(pathEnd{kind: "fail", msg: "an object is returned to a sync.Pool twice (first at " + at + ", again at " + fr.pos() + "): two later Gets hand the same object to two calls", site: fr.stack()})
			}
			m.pooled[o] = fr.pos()
		}
		ps.free = append(ps.free, args[1])
		return nil
	}
	harnessAPI["vPar"] = func(m *Machine, fr *frame, fn *ssa.Function, args []value) value {
		if m.sched != nil {
			panic(unsupported("nested vPar"))
		}
		s := &scheduler{lockOwner: map[string]int{}, rlocks: map[string]map[int]int{}, mainWake: make(chan struct{}, 1)}
		m.sched = s
		mainState := &thread{}
		m.saveThread(mainState)
		if len(m.heldLocks) != 0 {
			panic(unsupported("vPar called with a mutex held"))
		}
		for i := 0; i < 2; i++ {
			t := &thread{id: i, resume: make(chan bool)}
			s.threads = append(s.threads, t)
		}
		for i := 0; i < 2; i++ {
			t := s.threads[i]
			body := args[i]
			s.wg.Add(1)
			go func() {
				defer s.wg.Done()
				if ok := <-t.resume; !ok {
					t.done = true
					return
				}
				aborted := false
				func() {
					defer func() {
						if r := recover(); r != nil {
							if _, ok := r.(threadAbort); ok {
								aborted = true
								return
							}
							if s.err == nil {
								s.err = r
							}
						}
					}()
					m.call(body, nil, fr, nil)
					if len(m.heldLocks) != 0 {
						panic(pathEnd{kind: "fail", msg: "a call returned with a mutex still held", site: fr.stack()})
					}
				}()
				t.done = true
				if aborted {
					return
				}
				other := s.threads[1-t.id]
				if s.err == nil && !other.done {
					if !s.runnable(other) {
						s.err = pathEnd{kind: "fail", msg: "deadlock: a call waits for a mutex that is never released", site: fr.stack()}
					} else {
						// hand over for good
						s.cur = other.id
						m.loadThread(other)
						other.resume <- true
						return
					}
				}
				s.mainWake <- struct{}{}
			}()
		}
		// which thread starts is a scheduling decision too
		first := 0
		if m.branch(m.newNondet("sched:first", 0), fr) {
			first = 1
		}
		s.cur = first
		t := s.threads[first]
		t.curFrame, t.recoverTarget, t.heldLocks, t.syncDepth = nil, nil, nil, 0
		o := s.threads[1-first]
		o.curFrame, o.recoverTarget, o.heldLocks, o.syncDepth = nil, nil, nil, 0
		m.loadThread(t)
		t.resume <- true
		<-s.mainWake
		// stop whatever is still parked
		for _, t := range s.threads {
			if !t.done {
				t.resume <- false
			}
		}
		s.wg.Wait()
		m.sched = nil
		m.loadThread(mainState)
		m.notes = append(m.notes, Note{Key: "schedule", V: str{s: fmt.Sprintf("%d synchronisation points (%d beyond the per-site bound), %d context switches", s.points, s.skipped, s.switches)}})
		if s.err != nil {
			panic(s.err)
		}
		return nil
	}
}
