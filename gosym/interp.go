package main

// Symbolic interpreter for go/ssa: concrete heap shape, symbolic scalar leaves,
// path exploration by re-execution (see explore.go).

import (
	"fmt"
	"go/constant"
	"go/token"
	"go/types"
	"strings"
	"sync"

	"golang.org/x/tools/go/ssa"
)

// control-flow panics used inside the interpreter
type goPanic struct {
	v    value  // panic value as interface value
	msg  string // rendered
	site string
	rt   bool // runtime error (index, nil, div, type assertion)
}

type pathEnd struct {
	kind string // "fail", "assume", "unsupported", "budget", "exit"
	msg  string
	site string
}

type fnInfo struct {
	idx map[ssa.Value]int
	n   int
}

var fnInfos sync.Map

func getFnInfo(fn *ssa.Function) *fnInfo {
	if v, ok := fnInfos.Load(fn); ok {
		return v.(*fnInfo)
	}
	fi := &fnInfo{idx: map[ssa.Value]int{}}
	add := func(v ssa.Value) {
		fi.idx[v] = fi.n
		fi.n++
	}
	for _, p := range fn.Params {
		add(p)
	}
	for _, p := range fn.FreeVars {
		add(p)
	}
	for _, b := range fn.Blocks {
		for _, ins := range b.Instrs {
			if v, ok := ins.(ssa.Value); ok {
				add(v)
			}
		}
	}
	v, _ := fnInfos.LoadOrStore(fn, fi)
	return v.(*fnInfo)
}

type deferred struct {
	fn   value
	args []value
	site ssa.Instruction
}

type frame struct {
	m         *Machine
	fn        *ssa.Function
	info      *fnInfo
	caller    *frame
	regs      []value
	block     *ssa.BasicBlock
	prev      *ssa.BasicBlock
	defers    []deferred
	result    value
	panicking bool
	panicVal  *goPanic
	done      bool
	curInstr  ssa.Instruction
	depth     int
}

func (fr *frame) get(v ssa.Value) value {
	switch v := v.(type) {
	case *ssa.Const:
		return fr.m.constValue(v)
	case *ssa.Global:
		return pointer{obj: fr.m.globalObj(v)}
	case *ssa.Function:
		return v
	case *ssa.Builtin:
		return v
	case nil:
		return nil
	}
	if i, ok := fr.info.idx[v]; ok {
		return fr.regs[i]
	}
	panic(fmt.Sprintf("get: no register for %T %s in %s", v, v.Name(), fr.fn))
}

func (fr *frame) set(v ssa.Value, x value) {
	fr.regs[fr.info.idx[v]] = x
}

func (fr *frame) pos() string {
	if fr.curInstr != nil {
		p := fr.curInstr.Pos()
		if p.IsValid() {
			return shortPos(fr.m.prog.Fset.Position(p))
		}
	}
	return fr.fn.String()
}

func shortPos(p token.Position) string {
	f := p.Filename
	if strings.HasPrefix(f, repoRoot+"/") {
		f = f[len(repoRoot)+1:]
	} else if i := strings.LastIndex(f, "/src/"); i >= 0 {
		f = f[i+5:]
	}
	return fmt.Sprintf("%s:%d", f, p.Line)
}

func (fr *frame) stack() string {
	var sb strings.Builder
	for f := fr; f != nil; f = f.caller {
		sb.WriteString(f.fn.String())
		sb.WriteString("@")
		sb.WriteString(f.pos())
		sb.WriteString(" <- ")
		if sb.Len() > 1500 {
			break
		}
	}
	return sb.String()
}

var constCacheMu sync.Mutex

func (m *Machine) constValue(c *ssa.Const) value {
	if c.Value == nil {
		return zeroOrNil(c.Type())
	}
	t := c.Type().Underlying()
	if b, ok := t.(*types.Basic); ok {
		if w, _, ok := typeWidth(b); ok {
			if w == 0 {
				return mkBool(constant.BoolVal(c.Value))
			}
			if b.Info()&types.IsUnsigned != 0 {
				return mkConst(w, c.Uint64())
			}
			return mkConst(w, uint64(c.Int64()))
		}
		if isStringType(b) {
			if c.Value.Kind() == constant.String {
				return str{s: constant.StringVal(c.Value)}
			}
			return str{s: string(rune(c.Int64()))}
		}
		if isFloatType(b) {
			return c.Float64()
		}
	}
	if _, ok := t.(*types.TypeParam); ok {
		panic(unsupported("constant of type parameter type"))
	}
	panic(unsupported("constant " + c.String()))
}

func zeroOrNil(t types.Type) value {
	if b, ok := t.Underlying().(*types.Basic); ok && b.Kind() == types.UntypedNil {
		return nil
	}
	return zero(t)
}

// ---- memory ----

func (m *Machine) newObject(v value, t types.Type) *object {
	m.objCounter++
	return &object{id: m.objCounter, epoch: m.epoch, v: v, typ: t}
}

func cellOf(obj *object, path []int) *value {
	p := &obj.v
	for _, i := range path {
		switch c := (*p).(type) {
		case structure:
			p = &c[i]
		case array:
			p = &c[i]
		default:
			panic(fmt.Sprintf("cellOf: cannot index %T with %v", *p, path))
		}
	}
	return p
}

func (fr *frame) load(p pointer) value {
	if p.isNil() {
		fr.rtPanic("invalid memory address or nil pointer dereference")
	}
	if p.sym != nil {
		return fr.loadSym(p)
	}
	if fr.m.pooled != nil {
		fr.m.checkPooled(p.obj, fr)
	}
	if p.obj.global != nil {
		fr.m.noteGlobalAccess(p.obj.global, false)
	} else if fr.m.trackShared {
		fr.m.noteObjAccess(p.obj, false, fr)
	}
	return copyVal(*cellOf(p.obj, p.path))
}

func (m *Machine) checkPooled(o *object, fr *frame) {
	if at, in := m.pooled[o]; in && m.trackShared {
		panic(pathEnd{kind: "fail", msg: "an object is used after it was returned to a sync.Pool at " + at + " (another call may own it by now)", site: fr.stack()})
	}
}

func (fr *frame) store(p pointer, v value) {
	if p.isNil() {
		fr.rtPanic("invalid memory address or nil pointer dereference")
	}
	if p.sym != nil {
		if _, lazy := (*cellOf(p.obj, p.path)).(*lazyArr); lazy {
			panic(unsupported("store into a lazily defined array"))
		}
		p = fr.concretizePtr(p)
	}
	m := fr.m
	if m.pooled != nil {
		m.checkPooled(p.obj, fr)
	}
	if p.obj.frozen {
		m.frozenWrites = append(m.frozenWrites, fr.pos())
		if m.failOnFrozen {
			panic(pathEnd{kind: "fail", msg: "write to frozen object (" + m.frozenLabel + ") at " + fr.pos(), site: fr.stack()})
		}
	}
	c := cellOf(p.obj, p.path)
	if p.obj.epoch == 0 && m.epoch != 0 {
		m.undo = append(m.undo, undoRec{c, *c})
		if p.obj.global != nil {
			m.noteGlobalWrite(p.obj.global, fr)
		}
	}
	if m.trackShared {
		if p.obj.global != nil || m.sharedObj(p.obj) {
			m.noteObjAccess(p.obj, true, fr)
			m.publish(v)
		}
	}
	*c = copyVal(v)
}

type undoRec struct {
	c   *value
	old value
}

func extPath(path []int, i int) []int {
	r := make([]int, len(path)+1)
	copy(r, path)
	r[len(path)] = i
	return r
}

// loadSym reads through a pointer whose last index is symbolic.
func (fr *frame) loadSym(p pointer) value {
	if la, lazy := (*cellOf(p.obj, p.path)).(*lazyArr); lazy {
		return la.get(p.sym)
	}
	arr := (*cellOf(p.obj, p.path)).(array)
	// p.sym is an absolute index into arr, already bounds-checked against [lo,hi)
	lo, hi := p.symLoHi()
	allTerm := true
	allConst := true
	w := -1
	for i := lo; i < hi; i++ {
		t, ok := arr[i].(*Term)
		if !ok {
			allTerm = false
			break
		}
		if w == -1 {
			w = t.w
		}
		if !t.isConst() {
			allConst = false
		}
	}
	if !allTerm || hi-lo == 0 {
		q := fr.concretizePtr(p)
		return fr.load(q)
	}
	if allConst && hi-lo > 6 {
		vals := make([]uint64, hi)
		for i := lo; i < hi; i++ {
			vals[i] = arr[i].(*Term).c
		}
		tb := fr.m.internTable(vals, p.sym.w, w)
		return mkTbl(tb, p.sym)
	}
	// ite chain
	res := arr[hi-1].(*Term)
	for i := hi - 2; i >= lo; i-- {
		res = mkIte(mkEq(p.sym, mkConst(p.sym.w, uint64(i))), arr[i].(*Term), res)
	}
	return res
}

func (p pointer) symLoHi() (int, int) { return p.symLo, p.symHi }

func (fr *frame) concretizePtr(p pointer) pointer {
	i := fr.m.concretize(p.sym, fr)
	return pointer{obj: p.obj, path: extPath(p.path, int(i))}
}

func (m *Machine) internTable(vals []uint64, iw, ow int) *Table {
	var sb strings.Builder
	fmt.Fprintf(&sb, "%d/%d:", iw, ow)
	for _, v := range vals {
		fmt.Fprintf(&sb, "%x,", v)
	}
	key := sb.String()
	tableMu.Lock()
	defer tableMu.Unlock()
	if t, ok := tableCache[key]; ok {
		return t
	}
	t := &Table{name: fmt.Sprintf("tbl%d", len(tableCache)), iw: iw, ow: ow, vals: vals}
	tableCache[key] = t
	return t
}

var tableCache = map[string]*Table{}
var tableMu sync.Mutex

// ---- panics ----

func (fr *frame) rtPanic(msg string) {
	panic(&goPanic{v: iface{t: runtimeErrorType, v: str{s: "runtime error: " + msg}}, msg: "runtime error: " + msg, site: fr.stack(), rt: true})
}

var runtimeErrorType = types.NewNamed(types.NewTypeName(token.NoPos, nil, "runtime.Error", nil), types.Typ[types.String], nil)

// ---- execution ----

func (m *Machine) callSSA(fn *ssa.Function, args []value, env []value, caller *frame, site ssa.Instruction) (result value) {
	if fn.Blocks == nil {
		panic(unsupported("no body for function " + fn.String()))
	}
	if fn.TypeParams().Len() > 0 && len(fn.TypeArgs()) == 0 {
		panic(unsupported("uninstantiated generic function " + fn.String()))
	}
	info := getFnInfo(fn)
	depth := 0
	if caller != nil {
		depth = caller.depth + 1
	}
	if depth > 400 {
		panic(pathEnd{kind: "budget", msg: "call depth exceeded in " + fn.String()})
	}
	fr := &frame{m: m, fn: fn, info: info, caller: caller, regs: make([]value, info.n), depth: depth}
	if !m.funcsSeen[fn] {
		m.funcsSeen[fn] = true
	}
	for i, p := range fn.Params {
		fr.regs[info.idx[p]] = args[i]
	}
	for i, p := range fn.FreeVars {
		fr.regs[info.idx[p]] = env[i]
	}
	fr.block = fn.Blocks[0]
	saved := m.curFrame
	m.curFrame = fr
	for fr.block != nil {
		fr.runBlocks()
	}
	m.curFrame = saved
	return fr.result
}

// runBlocks executes until return, handling panics by running deferred calls.
func (fr *frame) runBlocks() {
	defer func() {
		if fr.done {
			return
		}
		r := recover()
		if r == nil {
			return
		}
		gp, ok := r.(*goPanic)
		if !ok {
			panic(r) // interpreter-level abort: do not run deferred functions
		}
		fr.done = true
		fr.panicking = true
		fr.panicVal = gp
		fr.runDefers()
		if fr.panicking {
			panic(fr.panicVal)
		}
		// recovered: continue at the Recover block, or return zero results
		fr.done = false
		if fr.fn.Recover != nil {
			fr.block = fr.fn.Recover
			fr.prev = nil
		} else {
			fr.block = nil
			fr.result = zeroResults(fr.fn)
		}
	}()
	for fr.block != nil {
		b := fr.block
		i := 0
		// phi nodes are evaluated in parallel on block entry
		if len(b.Instrs) > 0 {
			if _, isPhi := b.Instrs[0].(*ssa.Phi); isPhi {
				predIdx := -1
				for k, pred := range b.Preds {
					if pred == fr.prev {
						predIdx = k
						break
					}
				}
				var tmp [8]value
				vals := tmp[:0]
				for ; i < len(b.Instrs); i++ {
					phi, ok := b.Instrs[i].(*ssa.Phi)
					if !ok {
						break
					}
					vals = append(vals, fr.get(phi.Edges[predIdx]))
				}
				for k := 0; k < i; k++ {
					fr.set(b.Instrs[k].(*ssa.Phi), vals[k])
				}
			}
		}
		jumped := false
		for ; i < len(b.Instrs); i++ {
			ins := b.Instrs[i]
			fr.curInstr = ins
			fr.m.steps++
			if fr.m.steps > fr.m.budget {
				panic(pathEnd{kind: "budget", msg: "instruction budget exhausted", site: fr.stack()})
			}
			k := fr.visit(ins)
			if k == kJump {
				jumped = true
				break
			}
			if k == kReturn {
				fr.block = nil
				fr.done = true
				return
			}
		}
		if !jumped {
			panic("fell off end of block in " + fr.fn.String())
		}
	}
}

func zeroResults(fn *ssa.Function) value {
	res := fn.Signature.Results()
	switch res.Len() {
	case 0:
		return nil
	case 1:
		return zero(res.At(0).Type())
	}
	t := make(tuple, res.Len())
	for i := range t {
		t[i] = zero(res.At(i).Type())
	}
	return t
}

func (fr *frame) runDefers() {
	for len(fr.defers) > 0 {
		d := fr.defers[len(fr.defers)-1]
		fr.defers = fr.defers[:len(fr.defers)-1]
		fr.m.recoverTarget = append(fr.m.recoverTarget, fr)
		func() {
			defer func() { fr.m.recoverTarget = fr.m.recoverTarget[:len(fr.m.recoverTarget)-1] }()
			fr.m.call(d.fn, d.args, fr, d.site)
		}()
	}
}

const (
	kNext = iota
	kJump
	kReturn
)

func (fr *frame) jumpTo(idx int) {
	fr.prev = fr.block
	fr.block = fr.block.Succs[idx]
}

func (fr *frame) visit(ins ssa.Instruction) int {
	switch ins := ins.(type) {
	case *ssa.DebugRef:
	case *ssa.UnOp:
		fr.set(ins, fr.unop(ins, fr.get(ins.X)))
	case *ssa.BinOp:
		fr.set(ins, fr.binop(ins.Op, ins.X.Type(), fr.get(ins.X), fr.get(ins.Y), ins.Y.Type()))
	case *ssa.Call:
		fn, args := fr.prepareCall(&ins.Call)
		fr.set(ins, fr.m.call(fn, args, fr, ins))
	case *ssa.ChangeInterface:
		fr.set(ins, fr.get(ins.X))
	case *ssa.ChangeType:
		fr.set(ins, fr.get(ins.X))
	case *ssa.Convert:
		fr.set(ins, fr.conv(ins.Type(), ins.X.Type(), fr.get(ins.X)))
	case *ssa.MultiConvert:
		panic(unsupported("MultiConvert"))
	case *ssa.SliceToArrayPointer:
		s := fr.get(ins.X).(slice)
		n := int(ins.Type().Underlying().(*types.Pointer).Elem().Underlying().(*types.Array).Len())
		if s.len < n {
			fr.rtPanic("cannot convert slice to array pointer: length too short")
		}
		if s.isNil() {
			fr.set(ins, pointer{})
		} else if s.off == 0 {
			fr.set(ins, pointer{obj: s.obj, path: s.path})
		} else {
			panic(unsupported("SliceToArrayPointer with offset"))
		}
	case *ssa.MakeInterface:
		fr.set(ins, iface{t: ins.X.Type(), v: copyVal(fr.get(ins.X))})
	case *ssa.Extract:
		fr.set(ins, fr.get(ins.Tuple).(tuple)[ins.Index])
	case *ssa.Slice:
		fr.set(ins, fr.sliceOp(ins))
	case *ssa.Return:
		switch len(ins.Results) {
		case 0:
		case 1:
			fr.result = fr.get(ins.Results[0])
		default:
			res := make(tuple, len(ins.Results))
			for i, r := range ins.Results {
				res[i] = fr.get(r)
			}
			fr.result = res
		}
		return kReturn
	case *ssa.RunDefers:
		fr.runDefers()
	case *ssa.Panic:
		v := fr.get(ins.X)
		panic(&goPanic{v: v, msg: panicString(v), site: fr.stack()})
	case *ssa.Send:
		panic(unsupported("channel send"))
	case *ssa.Store:
		fr.store(fr.get(ins.Addr).(pointer), fr.get(ins.Val))
	case *ssa.If:
		c := fr.get(ins.Cond).(*Term)
		if fr.m.branch(c, fr) {
			fr.jumpTo(0)
		} else {
			fr.jumpTo(1)
		}
		return kJump
	case *ssa.Jump:
		fr.jumpTo(0)
		return kJump
	case *ssa.Defer:
		fn, args := fr.prepareCall(&ins.Call)
		fr.defers = append(fr.defers, deferred{fn, args, ins})
	case *ssa.Go:
		fn, args := fr.prepareCall(&ins.Call)
		fr.m.spawn(fn, args, fr, ins)
	case *ssa.MakeChan:
		panic(unsupported("MakeChan"))
	case *ssa.Alloc:
		obj := fr.m.newObject(zero(ins.Type().Underlying().(*types.Pointer).Elem()), ins.Type())
		fr.set(ins, pointer{obj: obj})
	case *ssa.MakeSlice:
		n := fr.m.concInt(fr.get(ins.Len), fr)
		c := fr.m.concInt(fr.get(ins.Cap), fr)
		if n < 0 || n > 1<<24 {
			fr.rtPanic("makeslice: len out of range")
		}
		if c < n {
			fr.rtPanic("makeslice: cap out of range")
		}
		et := ins.Type().Underlying().(*types.Slice).Elem()
		fr.set(ins, fr.m.makeSlice(et, int(n), int(c)))
	case *ssa.MakeMap:
		mt := ins.Type().Underlying().(*types.Map)
		fr.set(ins, fr.m.newMap(mt.Key()))
	case *ssa.Range:
		fr.set(ins, fr.rangeIter(fr.get(ins.X)))
	case *ssa.Next:
		fr.set(ins, fr.next(ins, fr.get(ins.Iter).(*iterator)))
	case *ssa.FieldAddr:
		p := fr.get(ins.X).(pointer)
		if p.isNil() {
			fr.rtPanic("invalid memory address or nil pointer dereference")
		}
		if p.sym != nil {
			p = fr.concretizePtr(p)
		}
		fr.set(ins, pointer{obj: p.obj, path: extPath(p.path, ins.Field)})
	case *ssa.Field:
		fr.set(ins, copyVal(fr.get(ins.X).(structure)[ins.Field]))
	case *ssa.IndexAddr:
		fr.set(ins, fr.indexAddr(ins))
	case *ssa.Index:
		fr.set(ins, fr.index(ins))
	case *ssa.Lookup:
		fr.set(ins, fr.lookup(ins))
	case *ssa.MapUpdate:
		mp := fr.get(ins.Map).(*mapObj)
		if mp == nil {
			panic(&goPanic{v: iface{t: types.Typ[types.String], v: str{s: "assignment to entry in nil map"}}, msg: "assignment to entry in nil map", site: fr.stack(), rt: true})
		}
		fr.m.mapSet(mp, fr.get(ins.Key), copyVal(fr.get(ins.Value)), fr)
	case *ssa.TypeAssert:
		fr.set(ins, fr.typeAssert(ins, fr.get(ins.X).(iface)))
	case *ssa.MakeClosure:
		env := make([]value, len(ins.Bindings))
		for i, b := range ins.Bindings {
			env[i] = fr.get(b)
		}
		fr.set(ins, &closure{fn: ins.Fn.(*ssa.Function), env: env})
	case *ssa.Phi:
		panic("phi not at block start")
	case *ssa.Select:
		panic(unsupported("select"))
	default:
		panic(unsupported(fmt.Sprintf("instruction %T", ins)))
	}
	return kNext
}

func panicString(v value) string {
	if i, ok := v.(iface); ok {
		if s, ok := i.v.(str); ok {
			if c, ok := s.concrete(); ok {
				return c
			}
			return "<symbolic string>"
		}
		if i.t != nil {
			return "panic(" + i.t.String() + " " + valString(i.v) + ")"
		}
	}
	return "panic(" + valString(v) + ")"
}

// Phi nodes must be evaluated in parallel at block entry; go/ssa guarantees phis are first.
// Our sequential evaluation is correct only if no phi reads another phi of the same block
// that was already overwritten. Handle by snapshotting.
func init() {}

func (fr *frame) prepareCall(c *ssa.CallCommon) (value, []value) {
	if c.Method == nil {
		fn := fr.get(c.Value)
		args := make([]value, len(c.Args))
		for i, a := range c.Args {
			args[i] = fr.get(a)
		}
		return fn, args
	}
	recv := fr.get(c.Value).(iface)
	if recv.t == nil {
		fr.rtPanic("invalid memory address or nil pointer dereference (method call on nil interface)")
	}
	if nf := invokeModel(recv.v, c.Method.Name()); nf != nil {
		args := make([]value, 0, len(c.Args))
		for _, a := range c.Args {
			args = append(args, fr.get(a))
		}
		return nf, args
	}
	fn := fr.m.lookupMethod(recv.t, c.Method)
	if fn == nil {
		panic(unsupported(fmt.Sprintf("method %s not found on %s", c.Method.Name(), recv.t)))
	}
	args := make([]value, 0, len(c.Args)+1)
	args = append(args, recv.v)
	for _, a := range c.Args {
		args = append(args, fr.get(a))
	}
	return fn, args
}

type methKey struct {
	t types.Type
	m *types.Func
}

func (m *Machine) lookupMethod(t types.Type, meth *types.Func) *ssa.Function {
	k := methKey{t, meth}
	if f, ok := m.methCache[k]; ok {
		return f
	}
	progMu.Lock()
	f := m.prog.LookupMethod(t, meth.Pkg(), meth.Name())
	progMu.Unlock()
	m.methCache[k] = f
	return f
}

var progMu sync.Mutex

func (m *Machine) call(fn value, args []value, caller *frame, site ssa.Instruction) value {
	switch fn := fn.(type) {
	case *ssa.Function:
		if fn == nil {
			caller.rtPanic("call of nil function")
		}
		if h := m.intrinsic(fn); h != nil {
			return h(m, caller, fn, args)
		}
		return m.callSSA(fn, args, nil, caller, site)
	case *closure:
		if fn == nil {
			caller.rtPanic("call of nil function")
		}
		if h := m.intrinsic(fn.fn); h != nil {
			return h(m, caller, fn.fn, args)
		}
		return m.callSSA(fn.fn, args, fn.env, caller, site)
	case *ssa.Builtin:
		return m.callBuiltin(fn, args, caller, site)
	case nativeFn:
		return fn(m, caller, args)
	case nil:
		caller.rtPanic("call of nil function")
	}
	panic(unsupported(fmt.Sprintf("call of %T", fn)))
}

func (m *Machine) spawn(fn value, args []value, caller *frame, site ssa.Instruction) {
	panic(unsupported("go statement"))
}

// ---- slices / indexing ----

func (m *Machine) makeSlice(et types.Type, n, c int) slice {
	a := make(array, c)
	for i := range a {
		a[i] = zero(et)
	}
	obj := m.newObject(a, nil)
	return slice{obj: obj, off: 0, len: n, cap: c}
}

func (s slice) arr() array {
	a, ok := (*cellOf(s.obj, s.path)).(array)
	if !ok {
		panic(unsupported("element-wise access to a lazily defined array"))
	}
	return a
}

func (fr *frame) checkIndex(idx *Term, n int) {
	// 0 <= idx < n  (idx is a signed int of some width)
	var ok *Term
	if idx.isConst() {
		v := sx(idx.c, idx.w)
		ok = mkBool(v >= 0 && v < int64(n))
	} else {
		i64 := idx
		if idx.w < 64 {
			i64 = mkSext(idx, 64) // sign-extend is right for signed; unsigned small types cannot be negative — handled by caller via toInt64
		}
		ok = mkCmp(opUlt, i64, mkConst(64, uint64(n)))
	}
	if !fr.m.branch(ok, fr) {
		fr.rtPanic(fmt.Sprintf("index out of range [%s] with length %d", valString(idx), n))
	}
}

// toIndex widens an index value of any integer type to a 64-bit signed term.
func toIndex(v value, t types.Type) *Term {
	x := v.(*Term)
	if x.w == 64 {
		return x
	}
	_, signed, _ := typeWidth(t)
	if signed {
		return mkSext(x, 64)
	}
	return mkZext(x, 64)
}

func (fr *frame) indexAddr(ins *ssa.IndexAddr) value {
	x := fr.get(ins.X)
	idx := toIndex(fr.get(ins.Index), ins.Index.Type())
	switch x := x.(type) {
	case pointer: // pointer to array
		if x.isNil() {
			fr.rtPanic("invalid memory address or nil pointer dereference")
		}
		if x.sym != nil {
			x = fr.concretizePtr(x)
		}
		arr := (*cellOf(x.obj, x.path)).(array)
		fr.checkIndex(idx, len(arr))
		if idx.isConst() {
			return pointer{obj: x.obj, path: extPath(x.path, int(idx.c))}
		}
		return pointer{obj: x.obj, path: x.path, sym: idx, symLo: 0, symHi: len(arr)}
	case slice:
		fr.checkIndex(idx, x.len)
		if _, lazy := (*cellOf(x.obj, x.path)).(*lazyArr); lazy {
			abs := mkBin(opAdd, idx, mkConst(64, uint64(x.off)))
			return pointer{obj: x.obj, path: x.path, sym: abs, symLo: x.off, symHi: x.off + x.len}
		}
		if idx.isConst() {
			return pointer{obj: x.obj, path: extPath(x.path, x.off+int(idx.c))}
		}
		abs := mkBin(opAdd, idx, mkConst(64, uint64(x.off)))
		return pointer{obj: x.obj, path: x.path, sym: abs, symLo: x.off, symHi: x.off + x.len}
	}
	panic(unsupported(fmt.Sprintf("IndexAddr on %T", x)))
}

func (fr *frame) index(ins *ssa.Index) value {
	x := fr.get(ins.X)
	idx := toIndex(fr.get(ins.Index), ins.Index.Type())
	switch x := x.(type) {
	case array:
		fr.checkIndex(idx, len(x))
		if idx.isConst() {
			return copyVal(x[idx.c])
		}
		return fr.symSelect([]value(x), idx)
	case str:
		fr.checkIndex(idx, x.length())
		if idx.isConst() {
			return x.at(int(idx.c))
		}
		bs := x.bytes()
		vals := make([]value, len(bs))
		for i, b := range bs {
			vals[i] = b
		}
		return fr.symSelect(vals, idx)
	}
	panic(unsupported(fmt.Sprintf("Index on %T", x)))
}

func (fr *frame) symSelect(vals []value, idx *Term) value {
	allTerm, allConst := true, true
	for _, v := range vals {
		t, ok := v.(*Term)
		if !ok {
			allTerm = false
			break
		}
		if !t.isConst() {
			allConst = false
		}
	}
	if !allTerm {
		i := fr.m.concretize(idx, fr)
		return copyVal(vals[i])
	}
	if allConst && len(vals) > 6 {
		u := make([]uint64, len(vals))
		for i, v := range vals {
			u[i] = v.(*Term).c
		}
		return mkTbl(fr.m.internTable(u, idx.w, vals[0].(*Term).w), idx)
	}
	res := vals[len(vals)-1].(*Term)
	for i := len(vals) - 2; i >= 0; i-- {
		res = mkIte(mkEq(idx, mkConst(idx.w, uint64(i))), vals[i].(*Term), res)
	}
	return res
}

// sliceStrSym slices a string with symbolic bounds without enumerating the offset: only the
// length is concretised, the bytes become selects over the source at lo+j.
func (fr *frame) sliceStrSym(x str, loT, hiT *Term) value {
	n := x.length()
	nT := mkConst(64, uint64(n))
	ok := mkAnd(mkCmp(opSle, mkConst(64, 0), loT), mkAnd(mkCmp(opSle, loT, hiT), mkCmp(opSle, hiT, nT)))
	if !fr.m.branch(ok, fr) {
		fr.rtPanic("slice bounds out of range (symbolic bounds)")
	}
	l := int(fr.m.concInt(mkBin(opSub, hiT, loT), fr))
	if loT.isConst() {
		return x.slice(int(loT.c), int(loT.c)+l)
	}
	bs := x.bytes()
	vals := make([]value, len(bs))
	for i, b := range bs {
		vals[i] = b
	}
	out := make([]*Term, l)
	for j := 0; j < l; j++ {
		idx := mkBin(opAdd, loT, mkConst(64, uint64(j)))
		out[j] = fr.symSelect(vals, idx).(*Term)
	}
	return mkStr(out)
}

func (fr *frame) sliceOp(ins *ssa.Slice) value {
	x := fr.get(ins.X)
	if xs, isStr := x.(str); isStr {
		loT := mkConst(64, 0)
		hiT := mkConst(64, uint64(xs.length()))
		if ins.Low != nil {
			loT = toIndex(fr.get(ins.Low), ins.Low.Type())
		}
		if ins.High != nil {
			hiT = toIndex(fr.get(ins.High), ins.High.Type())
		}
		if !loT.isConst() || !hiT.isConst() {
			return fr.sliceStrSym(xs, loT, hiT)
		}
	}
	if xsl, isSl := x.(slice); isSl && xsl.obj != nil {
		if _, lazy := (*cellOf(xsl.obj, xsl.path)).(*lazyArr); lazy {
			symB := false
			for _, b := range []ssa.Value{ins.Low, ins.High, ins.Max} {
				if b != nil && !toIndex(fr.get(b), b.Type()).isConst() {
					symB = true
				}
			}
			if symB {
				// enumerating the bounds would fork once per window position
				panic(unsupported("sub-slice with symbolic bounds of a lazily defined array"))
			}
		}
	}
	var lo, hi, max int64 = 0, -1, -1
	if ins.Low != nil {
		lo = fr.m.concInt(toIndex(fr.get(ins.Low), ins.Low.Type()), fr)
	}
	if ins.High != nil {
		hi = fr.m.concInt(toIndex(fr.get(ins.High), ins.High.Type()), fr)
	}
	if ins.Max != nil {
		max = fr.m.concInt(toIndex(fr.get(ins.Max), ins.Max.Type()), fr)
	}
	switch x := x.(type) {
	case str:
		n := int64(x.length())
		if hi == -1 && ins.High == nil {
			hi = n
		}
		if lo < 0 || hi < lo || hi > n {
			fr.rtPanic(fmt.Sprintf("slice bounds out of range [%d:%d] with length %d", lo, hi, n))
		}
		return x.slice(int(lo), int(hi))
	case slice:
		c := int64(x.cap)
		if ins.High == nil {
			hi = int64(x.len)
		}
		if ins.Max == nil {
			max = c
		}
		if lo < 0 || hi < lo || max < hi || max > c {
			fr.rtPanic(fmt.Sprintf("slice bounds out of range [%d:%d:%d] with capacity %d", lo, hi, max, c))
		}
		if x.isNil() {
			return slice{}
		}
		return slice{obj: x.obj, path: x.path, off: x.off + int(lo), len: int(hi - lo), cap: int(max - lo)}
	case pointer: // pointer to array
		if x.isNil() {
			fr.rtPanic("invalid memory address or nil pointer dereference")
		}
		arr := (*cellOf(x.obj, x.path)).(array)
		c := int64(len(arr))
		if ins.High == nil {
			hi = c
		}
		if ins.Max == nil {
			max = c
		}
		if lo < 0 || hi < lo || max < hi || max > c {
			fr.rtPanic(fmt.Sprintf("slice bounds out of range [%d:%d:%d] with capacity %d", lo, hi, max, c))
		}
		return slice{obj: x.obj, path: x.path, off: int(lo), len: int(hi - lo), cap: int(max - lo)}
	}
	panic(unsupported(fmt.Sprintf("Slice on %T", x)))
}

// ---- type assertions ----

func (fr *frame) typeAssert(ins *ssa.TypeAssert, x iface) value {
	ok := false
	var res value
	if it, isIface := ins.AssertedType.Underlying().(*types.Interface); isIface {
		if x.t != nil && fr.m.implements(x.t, it) {
			ok = true
			res = x
		} else {
			res = iface{}
		}
	} else {
		if x.t != nil && types.Identical(x.t, ins.AssertedType) {
			ok = true
			res = copyVal(x.v)
		} else {
			res = zero(ins.AssertedType)
		}
	}
	if ins.CommaOk {
		return tuple{res, mkBool(ok)}
	}
	if !ok {
		ts := "nil"
		if x.t != nil {
			ts = x.t.String()
		}
		msg := fmt.Sprintf("interface conversion: interface is %s, not %s", ts, ins.AssertedType)
		panic(&goPanic{v: iface{t: runtimeErrorType, v: str{s: msg}}, msg: msg, site: fr.stack(), rt: true})
	}
	return res
}

type implKey struct {
	t types.Type
	i *types.Interface
}

func (m *Machine) implements(t types.Type, it *types.Interface) bool {
	k := implKey{t, it}
	if v, ok := m.implCache[k]; ok {
		return v
	}
	progMu.Lock()
	v := types.Implements(t, it)
	progMu.Unlock()
	m.implCache[k] = v
	return v
}

// ---- iteration ----

func (fr *frame) rangeIter(x value) value {
	switch x := x.(type) {
	case str:
		return &iterator{s: x}
	case *mapObj:
		it := &iterator{m: x}
		if x != nil {
			if fr.m.trackShared {
				fr.m.noteMapAccess(x, false, fr)
			}
			for i, k := range x.keys {
				if !x.dead[i] {
					it.keys = append(it.keys, k)
					it.vals = append(it.vals, x.vals[i])
				}
			}
			if fr.m.reverseMaps {
				for i, j := 0, len(it.keys)-1; i < j; i, j = i+1, j-1 {
					it.keys[i], it.keys[j] = it.keys[j], it.keys[i]
					it.vals[i], it.vals[j] = it.vals[j], it.vals[i]
				}
			}
		}
		return it
	}
	panic(unsupported(fmt.Sprintf("range over %T", x)))
}

func (fr *frame) next(ins *ssa.Next, it *iterator) value {
	if ins.IsString {
		if it.pos >= it.s.length() {
			return tuple{termFalse, mkConst(64, 0), mkConst(32, 0)}
		}
		pos := it.pos
		b0 := it.s.at(pos)
		// fast path: ASCII byte
		if b0.isConst() && b0.c < 0x80 {
			it.pos++
			return tuple{termTrue, mkConst(64, uint64(pos)), mkConst(32, b0.c)}
		}
		if !b0.isConst() {
			if fr.m.branch(mkCmp(opUlt, b0, mkConst(8, 0x80)), fr) {
				it.pos++
				return tuple{termTrue, mkConst(64, uint64(pos)), mkZext(b0, 32)}
			}
		}
		// general: run utf8.DecodeRuneInString from its SSA
		dec := fr.m.stdFunc("unicode/utf8", "DecodeRuneInString")
		r := fr.m.call(dec, []value{it.s.slice(pos, it.s.length())}, fr, ins).(tuple)
		size := fr.m.concInt(r[1], fr)
		it.pos += int(size)
		return tuple{termTrue, mkConst(64, uint64(pos)), r[0]}
	}
	if it.idx >= len(it.keys) {
		return tuple{termFalse, nil, nil}
	}
	// skip entries deleted during iteration
	for it.idx < len(it.keys) {
		k, v := it.keys[it.idx], it.vals[it.idx]
		it.idx++
		// re-read current value (Go semantics: sees updates)
		if cur, present := fr.m.mapGetNoFork(it.m, k); present {
			v = cur
		} else {
			continue
		}
		return tuple{termTrue, k, copyVal(v)}
	}
	return tuple{termFalse, nil, nil}
}

func (m *Machine) stdFunc(pkg, name string) *ssa.Function {
	p := m.prog.ImportedPackage(pkg)
	if p == nil {
		for _, q := range m.prog.AllPackages() {
			if q.Pkg.Path() == pkg {
				p = q
				break
			}
		}
	}
	if p == nil {
		panic(unsupported("package not loaded: " + pkg))
	}
	f := p.Func(name)
	if f == nil {
		panic(unsupported("function not found: " + pkg + "." + name))
	}
	return f
}
