package main

import (
	"fmt"
	"go/token"
	"go/types"
	"math"
	"strconv"

	"golang.org/x/tools/go/ssa"
)

func (fr *frame) unop(ins *ssa.UnOp, x value) value {
	switch ins.Op {
	case token.MUL: // load
		return fr.load(x.(pointer))
	case token.NOT:
		return mkNot(x.(*Term))
	case token.SUB:
		switch x := x.(type) {
		case *Term:
			return mkNeg(x)
		case float64:
			return -x
		}
	case token.XOR:
		return mkBvnot(x.(*Term))
	case token.ARROW:
		panic(unsupported("channel receive"))
	}
	panic(unsupported(fmt.Sprintf("unop %s on %T", ins.Op, x)))
}

func (fr *frame) binop(op token.Token, xt types.Type, x, y value, yt types.Type) value {
	switch op {
	case token.EQL:
		return fr.eqVal(x, y)
	case token.NEQ:
		return mkNot(fr.eqVal(x, y))
	}
	switch x := x.(type) {
	case *Term:
		yv := y.(*Term)
		_, signed, _ := typeWidth(xt)
		switch op {
		case token.ADD:
			return mkBin(opAdd, x, yv)
		case token.SUB:
			return mkBin(opSub, x, yv)
		case token.MUL:
			return mkBin(opMul, x, yv)
		case token.QUO, token.REM:
			if !fr.m.branch(mkNot(mkEq(yv, mkConst(yv.w, 0))), fr) {
				fr.rtPanic("integer divide by zero")
			}
			if op == token.QUO {
				if signed {
					return mkBin(opSdiv, x, yv)
				}
				return mkBin(opUdiv, x, yv)
			}
			if signed {
				return mkBin(opSrem, x, yv)
			}
			return mkBin(opUrem, x, yv)
		case token.AND:
			if x.w == 0 {
				return mkAnd(x, yv)
			}
			return mkBin(opBvand, x, yv)
		case token.OR:
			if x.w == 0 {
				return mkOr(x, yv)
			}
			return mkBin(opBvor, x, yv)
		case token.XOR:
			return mkBin(opBvxor, x, yv)
		case token.AND_NOT:
			return mkBin(opBvand, x, mkBvnot(yv))
		case token.SHL, token.SHR:
			_, ysigned, _ := typeWidth(yt)
			if ysigned {
				neg := mkCmp(opSlt, yv, mkConst(yv.w, 0))
				if fr.m.branch(neg, fr) {
					fr.rtPanic("negative shift amount")
				}
			}
			// normalise shift count to operand width, saturating
			var cnt *Term
			if yv.w == x.w {
				cnt = yv
			} else if yv.w < x.w {
				cnt = mkZext(yv, x.w)
			} else {
				big := mkCmp(opUle, mkConst(yv.w, uint64(x.w)), yv)
				cnt = mkIte(big, mkConst(x.w, uint64(x.w)), mkExtract(yv, x.w-1, 0))
			}
			if op == token.SHL {
				return mkBin(opShl, x, cnt)
			}
			if signed {
				return mkBin(opAshr, x, cnt)
			}
			return mkBin(opLshr, x, cnt)
		case token.LSS:
			if signed {
				return mkCmp(opSlt, x, yv)
			}
			return mkCmp(opUlt, x, yv)
		case token.LEQ:
			if signed {
				return mkCmp(opSle, x, yv)
			}
			return mkCmp(opUle, x, yv)
		case token.GTR:
			if signed {
				return mkCmp(opSlt, yv, x)
			}
			return mkCmp(opUlt, yv, x)
		case token.GEQ:
			if signed {
				return mkCmp(opSle, yv, x)
			}
			return mkCmp(opUle, yv, x)
		}
	case str:
		yv := y.(str)
		switch op {
		case token.ADD:
			return concatStr(x, yv)
		case token.LSS:
			return strLess(x, yv, false)
		case token.LEQ:
			return strLess(x, yv, true)
		case token.GTR:
			return strLess(yv, x, false)
		case token.GEQ:
			return strLess(yv, x, true)
		}
	case float64:
		yv := y.(float64)
		switch op {
		case token.ADD:
			return x + yv
		case token.SUB:
			return x - yv
		case token.MUL:
			return x * yv
		case token.QUO:
			return x / yv
		case token.LSS:
			return mkBool(x < yv)
		case token.LEQ:
			return mkBool(x <= yv)
		case token.GTR:
			return mkBool(x > yv)
		case token.GEQ:
			return mkBool(x >= yv)
		}
	}
	panic(unsupported(fmt.Sprintf("binop %s on %T", op, x)))
}

// strLess builds a < b (or a <= b) lexicographically over bytes.
func strLess(a, b str, orEq bool) *Term {
	if a.b == nil && b.b == nil {
		if orEq {
			return mkBool(a.s <= b.s)
		}
		return mkBool(a.s < b.s)
	}
	la, lb := a.length(), b.length()
	n := la
	if lb < n {
		n = lb
	}
	// result when common prefix equal
	var tail *Term
	if orEq {
		tail = mkBool(la <= lb)
	} else {
		tail = mkBool(la < lb)
	}
	res := tail
	for i := n - 1; i >= 0; i-- {
		x, y := a.at(i), b.at(i)
		res = mkIte(mkEq(x, y), res, mkCmp(opUlt, x, y))
	}
	return res
}

func strEq(a, b str) *Term {
	if a.length() != b.length() {
		return termFalse
	}
	if a.b == nil && b.b == nil {
		return mkBool(a.s == b.s)
	}
	res := termTrue
	for i := a.length() - 1; i >= 0; i-- {
		res = mkAnd(mkEq(a.at(i), b.at(i)), res)
		if res.isFalse() {
			return res
		}
	}
	return res
}

func (fr *frame) eqVal(x, y value) *Term {
	switch x := x.(type) {
	case nil:
		switch y := y.(type) {
		case nil:
			return termTrue
		default:
			return fr.eqVal(y, x)
		}
	case *Term:
		return mkEq(x, y.(*Term))
	case str:
		return strEq(x, y.(str))
	case float64:
		return mkBool(x == y.(float64))
	case pointer:
		if y == nil {
			return mkBool(x.isNil())
		}
		yp := y.(pointer)
		if x.sym != nil {
			x = fr.concretizePtr(x)
		}
		if yp.sym != nil {
			yp = fr.concretizePtr(yp)
		}
		if x.obj != yp.obj || len(x.path) != len(yp.path) {
			return termFalse
		}
		for i := range x.path {
			if x.path[i] != yp.path[i] {
				return termFalse
			}
		}
		return termTrue
	case slice:
		if y == nil {
			return mkBool(x.isNil())
		}
		if ys, ok := y.(slice); ok && ys.isNil() {
			return mkBool(x.isNil())
		}
		if x.isNil() {
			return mkBool(y.(slice).isNil())
		}
		panic(unsupported("slice comparison"))
	case *mapObj:
		if y == nil {
			return mkBool(x == nil)
		}
		return mkBool(x == y.(*mapObj))
	case *closure:
		if y == nil {
			return mkBool(x == nil)
		}
		if yc, ok := y.(*closure); ok {
			return mkBool(x == nil && yc == nil)
		}
		return termFalse
	case *ssa.Function:
		if y == nil {
			return mkBool(x == nil)
		}
		if yc, ok := y.(*closure); ok && yc == nil {
			return mkBool(x == nil)
		}
		panic(unsupported("function comparison"))
	case iface:
		if y == nil {
			return mkBool(x.t == nil)
		}
		yi := y.(iface)
		if x.t == nil || yi.t == nil {
			return mkBool(x.t == nil && yi.t == nil)
		}
		if !types.Identical(x.t, yi.t) {
			return termFalse
		}
		if !types.Comparable(x.t) {
			panic(&goPanic{v: iface{t: runtimeErrorType, v: str{s: "comparing uncomparable type " + x.t.String()}}, msg: "runtime error: comparing uncomparable type " + x.t.String(), site: fr.stack(), rt: true})
		}
		return fr.eqVal(x.v, yi.v)
	case structure:
		ys := y.(structure)
		res := termTrue
		for i := range x {
			res = mkAnd(res, fr.eqVal(x[i], ys[i]))
		}
		return res
	case array:
		ys := y.(array)
		res := termTrue
		for i := range x {
			res = mkAnd(res, fr.eqVal(x[i], ys[i]))
		}
		return res
	}
	panic(unsupported(fmt.Sprintf("equality on %T", x)))
}

func (fr *frame) conv(dst, src types.Type, x value) value {
	ud, us := dst.Underlying(), src.Underlying()
	switch x := x.(type) {
	case *Term:
		if dw, _, ok := typeWidth(ud); ok {
			_, ssigned, _ := typeWidth(us)
			if dw == 0 {
				return x
			}
			if dw <= x.w {
				return mkExtract(x, dw-1, 0)
			}
			if ssigned {
				return mkSext(x, dw)
			}
			return mkZext(x, dw)
		}
		if isStringType(ud) {
			// string(rune)
			r := x
			if r.w < 32 {
				_, ssigned, _ := typeWidth(us)
				if ssigned {
					r = mkSext(r, 32)
				} else {
					r = mkZext(r, 32)
				}
			} else if r.w > 32 {
				// values outside the rune range become U+FFFD; handle via concretisation
				c := fr.m.concInt(r, fr)
				if c < 0 || c > 0x10FFFF {
					return str{s: "�"}
				}
				return str{s: string(rune(c))}
			}
			if r.isConst() {
				return str{s: string(rune(int32(r.c)))}
			}
			// ASCII fast path, else concretise
			if fr.m.branch(mkCmp(opUlt, r, mkConst(32, 0x80)), fr) {
				return str{b: []*Term{mkExtract(r, 7, 0)}}
			}
			c := fr.m.concretize(r, fr)
			return str{s: string(rune(int32(c)))}
		}
		if isFloatType(ud) {
			if x.isConst() {
				_, ssigned, _ := typeWidth(us)
				if ssigned {
					return float64(sx(x.c, x.w))
				}
				return float64(x.c)
			}
			panic(unsupported("symbolic int to float"))
		}
		if b, ok := ud.(*types.Basic); ok && b.Kind() == types.UnsafePointer {
			panic(unsupported("uintptr to unsafe.Pointer"))
		}
	case float64:
		if isFloatType(ud) {
			if b := ud.(*types.Basic); b.Kind() == types.Float32 {
				return float64(float32(x))
			}
			return x
		}
		if dw, signed, ok := typeWidth(ud); ok && dw > 0 {
			if signed {
				return mkConst(dw, uint64(int64(x)))
			}
			if x < 0 {
				return mkConst(dw, uint64(int64(x)))
			}
			if x >= math.Exp2(63) {
				return mkConst(dw, uint64(x))
			}
			return mkConst(dw, uint64(x))
		}
	case str:
		if isStringType(ud) {
			return x
		}
		if sl, ok := ud.(*types.Slice); ok {
			eb, _ := sl.Elem().Underlying().(*types.Basic)
			if eb != nil && eb.Kind() == types.Uint8 {
				bs := x.bytes()
				a := make(array, len(bs))
				for i, b := range bs {
					a[i] = b
				}
				obj := fr.m.newObject(a, nil)
				return slice{obj: obj, len: len(a), cap: len(a)}
			}
			if eb != nil && eb.Kind() == types.Int32 {
				// []rune(s)
				var a array
				pos := 0
				for pos < x.length() {
					b0 := x.at(pos)
					if (b0.isConst() && b0.c < 0x80) || (!b0.isConst() && fr.m.branch(mkCmp(opUlt, b0, mkConst(8, 0x80)), fr)) {
						a = append(a, mkZext(b0, 32))
						pos++
						continue
					}
					dec := fr.m.stdFunc("unicode/utf8", "DecodeRuneInString")
					r := fr.m.call(dec, []value{x.slice(pos, x.length())}, fr, nil).(tuple)
					size := fr.m.concInt(r[1], fr)
					a = append(a, r[0])
					pos += int(size)
				}
				obj := fr.m.newObject(a, nil)
				return slice{obj: obj, len: len(a), cap: len(a)}
			}
		}
	case slice:
		if isStringType(ud) {
			sl := us.(*types.Slice)
			eb, _ := sl.Elem().Underlying().(*types.Basic)
			if x.len == 0 {
				return str{}
			}
			arr := x.arr()
			if eb != nil && eb.Kind() == types.Uint8 {
				bs := make([]*Term, x.len)
				for i := 0; i < x.len; i++ {
					bs[i] = arr[x.off+i].(*Term)
				}
				return mkStr(bs)
			}
			if eb != nil && eb.Kind() == types.Int32 {
				res := str{}
				for i := 0; i < x.len; i++ {
					r := arr[x.off+i].(*Term)
					res = concatStr(res, fr.conv(types.Typ[types.String], types.Typ[types.Rune], r).(str))
				}
				return res
			}
		}
		if _, ok := ud.(*types.Slice); ok {
			return x
		}
	case pointer:
		if _, ok := ud.(*types.Pointer); ok {
			if b, ok := us.(*types.Basic); ok && b.Kind() == types.UnsafePointer {
				panic(unsupported("unsafe.Pointer to *T conversion"))
			}
			return x
		}
		if b, ok := ud.(*types.Basic); ok && b.Kind() == types.UnsafePointer {
			return x
		}
	}
	panic(unsupported(fmt.Sprintf("conversion %s -> %s (%T)", src, dst, x)))
}

// ---- concretisation ----

// concInt returns the concrete value of an integer term, forking over feasible values if symbolic.
func (m *Machine) concInt(v value, fr *frame) int64 {
	t := v.(*Term)
	if t.isConst() {
		return sx(t.c, t.w)
	}
	c := m.concretize(t, fr)
	return sx(c, t.w)
}

// ---- builtins ----

func (m *Machine) callBuiltin(fn *ssa.Builtin, args []value, fr *frame, site ssa.Instruction) value {
	switch fn.Name() {
	case "append":
		return m.appendSlice(fn, args, fr)
	case "copy":
		dst := args[0].(slice)
		n := dst.len
		switch src := args[1].(type) {
		case slice:
			if src.len < n {
				n = src.len
			}
			if n == 0 {
				return mkConst(64, 0)
			}
			sa, da := src.arr(), dst.arr()
			tmp := make([]value, n)
			for i := 0; i < n; i++ {
				tmp[i] = copyVal(sa[src.off+i])
			}
			m.noteArrayWrite(dst.obj, fr)
			for i := 0; i < n; i++ {
				m.storeElem(dst.obj, da, dst.off+i, tmp[i])
			}
		case str:
			if src.length() < n {
				n = src.length()
			}
			if n == 0 {
				return mkConst(64, 0)
			}
			da := dst.arr()
			m.noteArrayWrite(dst.obj, fr)
			for i := 0; i < n; i++ {
				m.storeElem(dst.obj, da, dst.off+i, src.at(i))
			}
		}
		return mkConst(64, uint64(n))
	case "len":
		switch x := args[0].(type) {
		case str:
			return mkConst(64, uint64(x.length()))
		case slice:
			return mkConst(64, uint64(x.len))
		case *mapObj:
			if x == nil {
				return mkConst(64, 0)
			}
			return mkConst(64, uint64(x.n))
		case array:
			return mkConst(64, uint64(len(x)))
		case pointer:
			return mkConst(64, uint64(len((*cellOf(x.obj, x.path)).(array))))
		}
	case "cap":
		switch x := args[0].(type) {
		case slice:
			return mkConst(64, uint64(x.cap))
		case array:
			return mkConst(64, uint64(len(x)))
		case pointer:
			return mkConst(64, uint64(len((*cellOf(x.obj, x.path)).(array))))
		}
	case "delete":
		mp := args[0].(*mapObj)
		if mp != nil {
			m.mapDelete(mp, args[1], fr)
		}
		return nil
	case "panic":
		panic(&goPanic{v: args[0], msg: panicString(args[0]), site: fr.stack()})
	case "recover":
		if n := len(m.recoverTarget); n > 0 {
			t := m.recoverTarget[n-1]
			if t.panicking {
				t.panicking = false
				return t.panicVal.v
			}
		}
		return iface{}
	case "print", "println":
		return nil
	case "min", "max":
		res := args[0]
		for _, a := range args[1:] {
			var lt *Term
			sig := fn.Type().(*types.Signature)
			pt := sig.Params().At(0).Type()
			if fn.Name() == "min" {
				lt = fr.binop(token.LSS, pt, a, res, pt).(*Term)
			} else {
				lt = fr.binop(token.GTR, pt, a, res, pt).(*Term)
			}
			switch rv := res.(type) {
			case *Term:
				res = mkIte(lt, a.(*Term), rv)
			default:
				if m.branch(lt, fr) {
					res = a
				}
			}
		}
		return res
	case "clear":
		switch x := args[0].(type) {
		case *mapObj:
			if x != nil {
				for i := range x.keys {
					if !x.dead[i] {
						x.dead[i] = true
					}
				}
				x.index = map[string]int{}
				x.n = 0
			}
		case slice:
			panic(unsupported("clear(slice)"))
		}
		return nil
	case "ssa:wrapnilchk":
		recv := args[0]
		if p, ok := recv.(pointer); ok && p.isNil() {
			fr.rtPanic("value method called using nil pointer")
		}
		return recv
	}
	panic(unsupported("builtin " + fn.Name()))
}

func (m *Machine) storeElem(obj *object, arr array, i int, v value) {
	if obj.epoch == 0 && m.epoch != 0 {
		m.undo = append(m.undo, undoRec{&arr[i], arr[i]})
	}
	arr[i] = v
}

func (m *Machine) noteArrayWrite(obj *object, fr *frame) {
	if m.trackShared {
		m.noteObjAccess(obj, true, fr)
	}
	if obj.frozen {
		m.frozenWrites = append(m.frozenWrites, fr.pos())
		if m.failOnFrozen {
			panic(pathEnd{kind: "fail", msg: "write to frozen object (" + m.frozenLabel + ") at " + fr.pos(), site: fr.stack()})
		}
	}
}

// Go's append growth, needed for faithful aliasing after append.
func growCap(oldCap, needed int, elemSize int64) int {
	newcap := oldCap
	doublecap := newcap + newcap
	if needed > doublecap {
		newcap = needed
	} else {
		const threshold = 256
		if oldCap < threshold {
			newcap = doublecap
		} else {
			for 0 < newcap && newcap < needed {
				newcap += (newcap + 3*threshold) / 4
			}
			if newcap <= 0 {
				newcap = needed
			}
		}
	}
	if elemSize <= 0 {
		return newcap
	}
	// round up to malloc size class
	mem := int64(newcap) * elemSize
	r := roundupsize(mem)
	return int(r / elemSize)
}

var sizeClasses = []int64{0, 8, 16, 24, 32, 48, 64, 80, 96, 112, 128, 144, 160, 176, 192, 208, 224, 240, 256, 288, 320, 352, 384, 416, 448, 480, 512, 576, 640, 704, 768, 896, 1024, 1152, 1280, 1408, 1536, 1792, 2048, 2304, 2688, 3072, 3200, 3456, 4096, 4864, 5376, 6144, 6528, 6784, 6912, 8192, 9472, 9728, 10240, 10880, 12288, 13568, 14336, 16384, 18432, 19072, 20480, 21760, 24576, 27264, 28672, 32768}

func roundupsize(n int64) int64 {
	if n <= 32768 {
		for _, c := range sizeClasses {
			if c >= n {
				return c
			}
		}
	}
	// page-rounded
	const page = 8192
	return (n + page - 1) / page * page
}

var stdSizes = types.SizesFor("gc", "amd64")

func (m *Machine) appendSlice(fn *ssa.Builtin, args []value, fr *frame) value {
	dst := args[0].(slice)
	var add []value
	switch src := args[1].(type) {
	case slice:
		if src.len > 0 {
			sa := src.arr()
			add = make([]value, src.len)
			for i := range add {
				add[i] = copyVal(sa[src.off+i])
			}
		}
	case str:
		for _, b := range src.bytes() {
			add = append(add, b)
		}
	case nil:
	default:
		panic(unsupported(fmt.Sprintf("append of %T", src)))
	}
	if len(add) == 0 {
		return dst
	}
	need := dst.len + len(add)
	if need <= dst.cap && !dst.isNil() {
		arr := dst.arr()
		m.noteArrayWrite(dst.obj, fr)
		for i, v := range add {
			m.storeElem(dst.obj, arr, dst.off+dst.len+i, v)
		}
		return slice{obj: dst.obj, path: dst.path, off: dst.off, len: need, cap: dst.cap}
	}
	et := fn.Type().(*types.Signature).Params().At(0).Type().Underlying().(*types.Slice).Elem()
	var esize int64
	func() {
		defer func() { recover() }()
		esize = stdSizes.Sizeof(et)
	}()
	nc := growCap(dst.cap, need, esize)
	if nc < need {
		nc = need
	}
	na := make(array, nc)
	if dst.len > 0 {
		oa := dst.arr()
		for i := 0; i < dst.len; i++ {
			na[i] = copyVal(oa[dst.off+i])
		}
	}
	for i, v := range add {
		na[dst.len+i] = v
	}
	for i := need; i < nc; i++ {
		na[i] = zero(et)
	}
	obj := m.newObject(na, nil)
	return slice{obj: obj, len: need, cap: nc}
}

// ---- maps ----

func (m *Machine) newMap(kt types.Type) *mapObj {
	m.objCounter++
	return &mapObj{keyT: kt, index: map[string]int{}, id: m.objCounter, epoch: m.epoch}
}

// concreteKey returns a canonical string for fully concrete comparable keys.
func concreteKey(k value) (string, bool) {
	switch k := k.(type) {
	case *Term:
		if k.isConst() {
			return "i" + strconv.FormatUint(k.c, 16), true
		}
	case str:
		if s, ok := k.concrete(); ok {
			return "s" + s, true
		}
	case iface:
		if k.t == nil {
			return "n", true
		}
		if ck, ok := concreteKey(k.v); ok {
			return "I" + k.t.String() + ":" + ck, true
		}
	case pointer:
		if k.sym == nil {
			if k.obj == nil {
				return "pnil", true
			}
			return fmt.Sprintf("p%d%v", k.obj.id, k.path), true
		}
	case structure:
		s := "{"
		for _, f := range k {
			ck, ok := concreteKey(f)
			if !ok {
				return "", false
			}
			s += ck + ";"
		}
		return s + "}", true
	case array:
		s := "["
		for _, f := range k {
			ck, ok := concreteKey(f)
			if !ok {
				return "", false
			}
			s += ck + ";"
		}
		return s + "]", true
	case float64:
		return "f" + strconv.FormatFloat(k, 'g', -1, 64), true
	}
	return "", false
}

// mapFind locates key, forking on symbolic equality where needed. Returns index or -1.
func (m *Machine) mapFind(mp *mapObj, k value, fr *frame) int {
	if ck, ok := concreteKey(k); ok {
		if i, ok := mp.index[ck]; ok {
			return i
		}
		// compare against symbolic keys only
		for i, ek := range mp.keys {
			if mp.dead[i] {
				continue
			}
			if _, c := concreteKey(ek); c {
				continue
			}
			if m.branch(fr.eqVal(ek, k), fr) {
				return i
			}
		}
		return -1
	}
	for i, ek := range mp.keys {
		if mp.dead[i] {
			continue
		}
		if m.branch(fr.eqVal(ek, k), fr) {
			return i
		}
	}
	return -1
}

func (m *Machine) mapGetNoFork(mp *mapObj, k value) (value, bool) {
	if ck, ok := concreteKey(k); ok {
		if i, ok := mp.index[ck]; ok && !mp.dead[i] {
			return mp.vals[i], true
		}
		return nil, false
	}
	for i, ek := range mp.keys {
		if !mp.dead[i] {
			if ekt, ok := ek.(*Term); ok {
				if kt, ok := k.(*Term); ok && ekt == kt {
					return mp.vals[i], true
				}
			}
		}
	}
	return nil, false
}

func (m *Machine) checkMapWrite(mp *mapObj, fr *frame) {
	if mp.epoch == 0 && m.epoch != 0 {
		m.saveMap(mp)
	}
	if m.trackShared {
		m.noteMapAccess(mp, true, fr)
	}
	if m.frozenMaps != nil && m.frozenMaps[mp] {
		m.frozenWrites = append(m.frozenWrites, fr.pos())
		if m.failOnFrozen {
			panic(pathEnd{kind: "fail", msg: "write to frozen map (" + m.frozenLabel + ") at " + fr.pos(), site: fr.stack()})
		}
	}
}

func (m *Machine) mapSet(mp *mapObj, k, v value, fr *frame) {
	m.checkMapWrite(mp, fr)
	if m.trackShared && m.sharedMap(mp) {
		m.publish(k)
		m.publish(v)
	}
	i := m.mapFind(mp, k, fr)
	if i >= 0 {
		mp.vals[i] = v
		return
	}
	mp.keys = append(mp.keys, copyVal(k))
	mp.vals = append(mp.vals, v)
	mp.dead = append(mp.dead, false)
	if ck, ok := concreteKey(k); ok {
		mp.index[ck] = len(mp.keys) - 1
	}
	mp.n++
}

func (m *Machine) mapDelete(mp *mapObj, k value, fr *frame) {
	m.checkMapWrite(mp, fr)
	i := m.mapFind(mp, k, fr)
	if i >= 0 {
		mp.dead[i] = true
		if ck, ok := concreteKey(mp.keys[i]); ok {
			delete(mp.index, ck)
		}
		mp.n--
	}
}

func (fr *frame) lookup(ins *ssa.Lookup) value {
	x := fr.get(ins.X)
	switch x := x.(type) {
	case str:
		idx := toIndex(fr.get(ins.Index), ins.Index.Type())
		fr.checkIndex(idx, x.length())
		if idx.isConst() {
			return x.at(int(idx.c))
		}
		bs := x.bytes()
		vals := make([]value, len(bs))
		for i, b := range bs {
			vals[i] = b
		}
		return fr.symSelect(vals, idx)
	case *mapObj:
		var v value
		found := false
		if x != nil {
			if fr.m.trackShared {
				fr.m.noteMapAccess(x, false, fr)
			}
			i := fr.m.mapFind(x, fr.get(ins.Index), fr)
			if i >= 0 {
				v = copyVal(x.vals[i])
				found = true
			}
		}
		if !found {
			v = zero(ins.X.Type().Underlying().(*types.Map).Elem())
		}
		if ins.CommaOk {
			return tuple{v, mkBool(found)}
		}
		return v
	}
	panic(unsupported(fmt.Sprintf("lookup on %T", x)))
}
