package main

import (
	"bufio"
	"fmt"
	"io"
	"os/exec"
	"strconv"
	"strings"
	"time"
)

// Solver is one long-lived SMT solver process driven over a pipe.
type Solver struct {
	name          string
	cmd           *exec.Cmd
	in            io.WriteCloser
	out           *bufio.Reader
	pr            *printer
	buf           strings.Builder
	stats         *SolverStats
	broken        bool
	timedOut      bool
	hardTimeoutMs int
	kind          string
	timeoutMs     int
	log           io.Writer
}

type SolverStats struct {
	Queries  int64
	Sat      int64
	Unsat    int64
	Unknown  int64
	Errors   int64
	TimeNs   int64
	MaxQuery time.Duration
}

func solverArgv(kind string, timeoutMs int) []string {
	switch kind {
	case "z3":
		return []string{"z3", "-in", "-t:" + strconv.Itoa(timeoutMs)}
	case "z3-new":
		return []string{"z3-new", "-in", "-t:" + strconv.Itoa(timeoutMs)}
	case "cvc5":
		return []string{"cvc5", "--incremental", "--produce-models", "--lang=smt2", "--tlimit-per=" + strconv.Itoa(timeoutMs)}
	}
	panic("unknown solver " + kind)
}

func NewSolver(kind string, timeoutMs int) (*Solver, error) {
	argv := solverArgv(kind, timeoutMs)
	cmd := exec.Command(argv[0], argv[1:]...)
	in, err := cmd.StdinPipe()
	if err != nil {
		return nil, err
	}
	outp, err := cmd.StdoutPipe()
	if err != nil {
		return nil, err
	}
	cmd.Stderr = cmd.Stdout
	if err := cmd.Start(); err != nil {
		return nil, err
	}
	s := &Solver{name: kind, cmd: cmd, in: in, out: bufio.NewReaderSize(outp, 1<<16), stats: &SolverStats{}, kind: kind, timeoutMs: timeoutMs, hardTimeoutMs: timeoutMs + timeoutMs/2 + 5000}
	s.pr = &printer{out: &s.buf}
	s.resetScope()
	s.send("(set-option :produce-models true)\n")
	if kind == "cvc5" {
		s.send("(set-logic QF_BV)\n")
	}
	return s, nil
}

func (s *Solver) resetScope() {
	s.pr.declared = map[string]int{}
	s.pr.named = map[*Term]string{}
	s.pr.tables = map[string]bool{}
}

func (s *Solver) Close() {
	s.in.Close()
	s.cmd.Process.Kill()
	s.cmd.Wait()
}

func (s *Solver) send(str string) {
	if s.log != nil {
		io.WriteString(s.log, str)
	}
	if _, err := io.WriteString(s.in, str); err != nil {
		s.broken = true
	}
}

func (s *Solver) flush() {
	if s.buf.Len() > 0 {
		str := s.buf.String()
		s.buf.Reset()
		s.send(str)
	}
}

// BeginPath opens a fresh scope for one path.
func (s *Solver) BeginPath() {
	s.resetScope()
	s.send("(push 1)\n")
}

func (s *Solver) EndPath() {
	s.buf.Reset()
	s.send("(pop 1)\n")
	s.resetScope()
}

// Assert adds a path-condition conjunct (no check).
func (s *Solver) Assert(t *Term) {
	n := s.pr.emit(t)
	fmt.Fprintf(&s.buf, "(assert %s)\n", n)
}

type Result int

const (
	Unsat Result = iota
	Sat
	Unknown
)

// readLine reads one answer line. The solver's own soft timeout (-t) is not honoured inside some
// preprocessing steps, so a hard wall-clock limit is enforced here: when it expires the process is
// killed and the query counts as unknown (the caller restarts the solver).
func (s *Solver) readLine() string {
	type res struct {
		line string
		err  error
	}
	ch := make(chan res, 1)
	go func() {
		line, err := s.out.ReadString('\n')
		ch <- res{line, err}
	}()
	limit := time.Duration(s.hardTimeoutMs) * time.Millisecond
	if limit <= 0 {
		limit = 5 * time.Minute
	}
	select {
	case r := <-ch:
		if r.err != nil {
			s.broken = true
			return "(error \"solver pipe closed\")"
		}
		return strings.TrimSpace(r.line)
	case <-time.After(limit):
		s.timedOut = true
		s.broken = true
		s.cmd.Process.Kill()
		return "(error \"solver hard timeout\")"
	}
}

// CheckWith asks whether path-condition ∧ extra is satisfiable; on Sat returns a model
// of all variables declared in this scope.
func (s *Solver) CheckWith(extra *Term) (Result, Model) {
	var n string
	if extra != nil {
		n = s.pr.emit(extra)
	}
	s.flush()
	start := time.Now()
	if extra != nil {
		s.send("(push 1)\n(assert " + n + ")\n(check-sat)\n")
	} else {
		s.send("(check-sat)\n")
	}
	line := s.readLine()
	for line == "" {
		line = s.readLine()
	}
	d := time.Since(start)
	s.stats.Queries++
	s.stats.TimeNs += int64(d)
	if d > s.stats.MaxQuery {
		s.stats.MaxQuery = d
	}
	var res Result
	var model Model
	switch {
	case line == "sat":
		res = Sat
		s.stats.Sat++
		model = s.getModel()
	case line == "unsat":
		res = Unsat
		s.stats.Unsat++
	case line == "unknown" || line == "timeout":
		res = Unknown
		s.stats.Unknown++
	default:
		// (error ...) or garbage: inconclusive
		res = Unknown
		s.stats.Errors++
		if s.log != nil {
			fmt.Fprintf(s.log, "; SOLVER-ERROR: %s\n", line)
		}
		lastSolverError = line
	}
	if extra != nil {
		s.send("(pop 1)\n")
	}
	return res, model
}

var lastSolverError string

func (s *Solver) getModel() Model {
	m := Model{}
	if len(s.pr.declared) == 0 {
		return m
	}
	var sb strings.Builder
	sb.WriteString("(get-value (")
	names := make([]string, 0, len(s.pr.declared))
	for n := range s.pr.declared {
		names = append(names, n)
		sb.WriteString(n)
		sb.WriteString(" ")
	}
	sb.WriteString("))\n")
	s.send(sb.String())
	// response: ((a #x00) (b true) ...), possibly across lines
	depth := 0
	var resp strings.Builder
	for {
		line := s.readLine()
		resp.WriteString(line)
		resp.WriteString(" ")
		for _, ch := range line {
			if ch == '(' {
				depth++
			} else if ch == ')' {
				depth--
			}
		}
		if depth <= 0 {
			break
		}
		if s.broken {
			break
		}
	}
	toks := tokenizeSexp(resp.String())
	// expect ( ( name val ) ( name val ) ... )
	for i := 0; i+3 < len(toks); i++ {
		if toks[i] == "(" && toks[i+1] != "(" {
			name := toks[i+1]
			val := toks[i+2]
			if val == "(" {
				// (_ bvN w) form
				if i+5 < len(toks) && toks[i+3] == "_" && strings.HasPrefix(toks[i+4], "bv") {
					v, _ := strconv.ParseUint(toks[i+4][2:], 10, 64)
					m[name] = v
				}
				continue
			}
			switch {
			case val == "true":
				m[name] = 1
			case val == "false":
				m[name] = 0
			case strings.HasPrefix(val, "#x"):
				v, _ := strconv.ParseUint(val[2:], 16, 64)
				m[name] = v
			case strings.HasPrefix(val, "#b"):
				v, _ := strconv.ParseUint(val[2:], 2, 64)
				m[name] = v
			}
		}
	}
	return m
}

func tokenizeSexp(s string) []string {
	var toks []string
	cur := strings.Builder{}
	fl := func() {
		if cur.Len() > 0 {
			toks = append(toks, cur.String())
			cur.Reset()
		}
	}
	for _, ch := range s {
		switch ch {
		case '(', ')':
			fl()
			toks = append(toks, string(ch))
		case ' ', '\t', '\n', '\r':
			fl()
		default:
			cur.WriteRune(ch)
		}
	}
	fl()
	return toks
}
