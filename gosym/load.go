package main

import (
	"fmt"
	"go/types"
	"os"
	"path/filepath"
	"strings"

	"golang.org/x/tools/go/packages"
	"golang.org/x/tools/go/ssa"
	"golang.org/x/tools/go/ssa/ssautil"
)

// repoRoot is the tree under test: /repo for every registered command; VERIF_REPO points experiments
// (seeded changes checked in a scratch worktree) at another copy.
var repoRoot = func() string {
	if v := os.Getenv("VERIF_REPO"); v != "" {
		return v
	}
	return "/repo"
}()

var pkgDirs = map[string]string{
	"main":     "",
	"libvore":  "libvore",
	"algo":     "libvore/algo",
	"ast":      "libvore/ast",
	"bytecode": "libvore/bytecode",
	"ds":       "libvore/ds",
	"engine":   "libvore/engine",
	"files":    "libvore/files",
}

func pkgImportPath(short string) string {
	d := pkgDirs[short]
	if d == "" {
		return "github.com/jmeaster30/vore"
	}
	return "github.com/jmeaster30/vore/" + d
}

// vrtSource is the native runtime of the harness API, templated on the package name.
func vrtSource(pkg string) string {
	b, err := os.ReadFile(filepath.Join(verifRoot(), "harness", "vrt", "vrt.go.tmpl"))
	if err != nil {
		panic(err)
	}
	return strings.Replace(string(b), "package PKG", "package "+pkg, 1)
}

func verifRoot() string {
	if v := os.Getenv("VERIF_ROOT"); v != "" {
		return v
	}
	exe, err := os.Executable()
	if err == nil {
		d := filepath.Dir(filepath.Dir(exe))
		if _, err := os.Stat(filepath.Join(d, "harness")); err == nil {
			return d
		}
	}
	return "/verif"
}

// Overlay maps a virtual path inside /repo to file contents.
type Overlay map[string][]byte

// buildOverlay places harness files into repo packages. spec: short package name -> list of
// harness files (relative to /verif/harness).
func buildOverlay(spec map[string][]string) (Overlay, error) {
	ov := Overlay{}
	for short, files := range spec {
		dir, ok := pkgDirs[short]
		if !ok {
			return nil, fmt.Errorf("unknown package %q", short)
		}
		goPkg := short
		if short == "main" {
			goPkg = "main"
		}
		ov[filepath.Join(repoRoot, dir, "zz_verif_vrt.go")] = []byte(vrtSource(goPkg))
		for _, f := range files {
			path := filepath.Join(verifRoot(), "harness", f)
			if filepath.IsAbs(f) {
				path = f
			}
			b, err := os.ReadFile(path)
			if err != nil {
				return nil, err
			}
			src := string(b)
			// harness files are written with "package PKG" when shared between packages
			src = strings.Replace(src, "package PKG", "package "+goPkg, 1)
			name := "zz_verif_" + strings.ReplaceAll(strings.TrimSuffix(strings.TrimPrefix(f, "/"), ".go"), "/", "_") + ".go"
			ov[filepath.Join(repoRoot, dir, name)] = []byte(src)
		}
	}
	return ov, nil
}

type Loaded struct {
	prog *ssa.Program
	pkgs map[string]*ssa.Package // by import path
}

func loadRepo(ov Overlay, roots []string) (*Loaded, error) {
	cfg := &packages.Config{
		Mode:    packages.LoadAllSyntax,
		Dir:     repoRoot,
		Env:     append(os.Environ(), "GOFLAGS=", "GOWORK="+repoRoot+"/go.work", "GOPROXY=off", "GOSUMDB=off", "GOTOOLCHAIN=local"),
		Overlay: ov,
	}
	pkgs, err := packages.Load(cfg, roots...)
	if err != nil {
		return nil, err
	}
	var errs []string
	packages.Visit(pkgs, nil, func(p *packages.Package) {
		for _, e := range p.Errors {
			errs = append(errs, e.Error())
		}
	})
	if len(errs) > 0 {
		if len(errs) > 20 {
			errs = errs[:20]
		}
		return nil, fmt.Errorf("load errors:\n%s", strings.Join(errs, "\n"))
	}
	prog, _ := ssautil.AllPackages(pkgs, ssa.InstantiateGenerics)
	prog.Build()
	l := &Loaded{prog: prog, pkgs: map[string]*ssa.Package{}}
	for _, p := range prog.AllPackages() {
		l.pkgs[p.Pkg.Path()] = p
	}
	return l, nil
}

func (l *Loaded) fn(pkgShort, name string) (*ssa.Function, error) {
	p := l.pkgs[pkgImportPath(pkgShort)]
	if p == nil {
		return nil, fmt.Errorf("package %s not loaded", pkgShort)
	}
	f := p.Func(name)
	if f == nil {
		return nil, fmt.Errorf("function %s.%s not found", pkgShort, name)
	}
	return f, nil
}

func intArgs(fn *ssa.Function, xs []int64) ([]value, error) {
	ps := fn.Signature.Params()
	if ps.Len() != len(xs) {
		return nil, fmt.Errorf("%s takes %d args, got %d", fn, ps.Len(), len(xs))
	}
	args := make([]value, len(xs))
	for i, x := range xs {
		w, _, ok := typeWidth(ps.At(i).Type())
		if !ok {
			return nil, fmt.Errorf("%s param %d is not an integer/bool", fn, i)
		}
		args[i] = mkConst(w, uint64(x))
	}
	return args, nil
}

var _ = types.Typ
