package main

import (
	"encoding/json"
	"fmt"
	"os"
	"path/filepath"
	"sort"
)

type Evidence struct {
	id   string
	tier string
	seed int64

	Paths              int64
	Jobs               int
	Decisions          int64
	Steps              int64
	MaxSteps           int64
	Queries            int64
	Sat                int64
	Unsat              int64
	UnknownQ           int64
	SolverErrors       int64
	SolverS            float64
	MaxQueryS          float64
	LoadS              float64
	Replays            int
	KnownHits          int
	PanicsIgnored      int64
	Counts             map[string]int64
	Reach              map[string]int64
	Funcs              map[string]bool
	Stubs              map[string]int64
	GlobalW            map[string]int64
	Samples            []map[string]interface{}
	Groups             map[string]*groupEv
	Inconclusive       []string
	Incomplete         []string
	Violations         []map[string]interface{}
	Budgets            map[string]int64
	SelftestPairs      int
	SelftestMismatches int
	CrossJobs          int
	PositiveReplays    int
	NotApplicable      []string
}

type groupEv struct {
	Jobs     int              `json:"jobs"`
	Paths    int64            `json:"paths"`
	Counts   map[string]int64 `json:"outcomes"`
	MaxSteps int64            `json:"max_ssa_steps_on_a_path"`
	Budget   int64            `json:"unwinding_budget_ssa_steps"`
	Args     [][]int64        `json:"job_args,omitempty"`
	WallS    float64          `json:"wall_s"`
	Entry    string           `json:"entry"`
}

func newEvidence(id, tier string, seed int64) *Evidence {
	return &Evidence{id: id, tier: tier, seed: seed, Counts: map[string]int64{}, Reach: map[string]int64{}, Funcs: map[string]bool{}, Stubs: map[string]int64{}, GlobalW: map[string]int64{}, Groups: map[string]*groupEv{}, Budgets: map[string]int64{}}
}

func (ev *Evidence) addJob(g *JobGroup, jr jobResult) {
	res := jr.res
	ev.Jobs++
	ev.Paths += res.Paths
	ev.Decisions += res.Decisions
	ev.Steps += res.Steps
	if res.MaxSteps > ev.MaxSteps {
		ev.MaxSteps = res.MaxSteps
	}
	ev.Queries += res.Solver.Queries
	ev.Sat += res.Solver.Sat
	ev.Unsat += res.Solver.Unsat
	ev.UnknownQ += res.Solver.Unknown
	ev.SolverErrors += res.Solver.Errors
	ev.SolverS += float64(res.Solver.TimeNs) / 1e9
	if s := res.Solver.MaxQuery.Seconds(); s > ev.MaxQueryS {
		ev.MaxQueryS = s
	}
	for k, v := range res.Counts {
		ev.Counts[k] += v
	}
	for k, v := range res.Reach {
		ev.Reach[k] += v
	}
	for _, f := range res.Funcs {
		ev.Funcs[f] = true
	}
	for k, v := range res.Stubs {
		ev.Stubs[k] += v
	}
	for k, v := range res.GlobalW {
		ev.GlobalW[k] += v
	}
	ge := ev.Groups[g.Name]
	if ge == nil {
		ge = &groupEv{Counts: map[string]int64{}, Entry: g.Pkg + "." + g.Entry}
		ev.Groups[g.Name] = ge
	}
	ge.Jobs++
	ge.Paths += res.Paths
	ge.WallS += res.WallS
	for k, v := range res.Counts {
		ge.Counts[k] += v
	}
	if res.MaxSteps > ge.MaxSteps {
		ge.MaxSteps = res.MaxSteps
	}
	ge.Budget = g.Budget
	if ge.Budget == 0 {
		ge.Budget = 20_000_000
	}
	if len(ge.Args) < 400 {
		ge.Args = append(ge.Args, jr.args)
	}
	if len(ev.Samples) < 8 {
		for _, s := range res.Samples {
			if len(ev.Samples) >= 8 {
				break
			}
			ev.Samples = append(ev.Samples, map[string]interface{}{"group": g.Name, "args": jr.args, "outcome": s.Kind, "notes": s.Notes, "nondet": s.Nondet, "branch_decisions": s.Decisions, "ssa_steps": s.Steps})
			break
		}
	}
}

func (ev *Evidence) addViolation(rf *ReplayFile) {
	ev.Violations = append(ev.Violations, map[string]interface{}{"signature": rf.Sig, "notes": rf.Notes, "nondet": rf.Nondet})
}

// evidencePartial: a run restricted to some groups (--only, development) does not describe the check
var evidencePartial bool

func (ev *Evidence) write(wall float64, violations int) {
	spec := properties[ev.id]
	funcs := make([]string, 0, len(ev.Funcs))
	repoFuncs, stdFuncs := []string{}, []string{}
	for f := range ev.Funcs {
		funcs = append(funcs, f)
	}
	sort.Strings(funcs)
	for _, f := range funcs {
		if isRepoFuncName(f) {
			repoFuncs = append(repoFuncs, f)
		} else {
			stdFuncs = append(stdFuncs, f)
		}
	}
	samples := ev.Samples
	if len(samples) == 0 {
		samples = []map[string]interface{}{{"note": "no completed path sampled"}}
	}
	states := ev.Paths
	if states < 1 {
		states = 0
	}
	assumptions := []string{
		"go/ssa semantics as implemented by gosym (validated by selftest against the native build and by native replay of every counterexample)",
		"stubbed externals behave per their documented contract: " + fmt.Sprint(keysOf(ev.Stubs)),
		"SMT solver verdicts (z3 4.8.12; a sample of jobs per group is re-explored with z3 5.1.0, and cvc5 1.0 in the thorough tier, and must give the same feasible paths)",
	}
	if spec != nil {
		assumptions = append(assumptions, spec.Assumptions...)
	}
	doc := map[string]interface{}{
		"property_id": ev.id,
		"tier":        ev.tier,
		"seed":        ev.seed,
		"level":       "model_checking",
		"wall_s":      wall,
		"violations":  violations,
		"assumptions": assumptions,
		"coverage": map[string]interface{}{
			"states":                          states,
			"transitions":                     ev.Decisions,
			"traces_validated_against_impl":   ev.Replays + ev.SelftestPairs + ev.PositiveReplays,
			"selftest":                        map[string]int{"pairs_compared_native_vs_gosym": ev.SelftestPairs, "mismatches": ev.SelftestMismatches},
			"native_replays":                  ev.Replays,
			"native_replays_of_passing_paths": ev.PositiveReplays,
			"solver_cross_check":              map[string]interface{}{"jobs_re_explored_with_other_solvers": ev.CrossJobs, "solvers": "z3 5.1.0 (quick, thorough), cvc5 1.0 (thorough)", "rule": "per group the largest completed jobs under a path limit are explored again; paths per outcome must be identical, any difference makes the run inconclusive"},
			"samples":                         samples,
			"exhaustive":                      len(ev.Inconclusive) == 0 && len(ev.Incomplete) == 0,
			"rule":                            "states = feasible paths (input equivalence classes) of the harness over the real SSA of /repo, every symbolic branch decided by an SMT query; transitions = symbolic branch decisions taken; each job is one concrete program shape, inside a job nothing is sampled",
			"jobs":                            ev.Jobs,
			"path_outcomes":                   ev.Counts,
			"reach_markers":                   ev.Reach,
			"ssa_steps_total":                 ev.Steps,
			"ssa_steps_max_path":              ev.MaxSteps,
			"queries":                         map[string]interface{}{"total": ev.Queries, "sat": ev.Sat, "unsat": ev.Unsat, "unknown": ev.UnknownQ, "errors": ev.SolverErrors},
			"solver_time_s":                   ev.SolverS,
			"solver_max_query_s":              ev.MaxQueryS,
			"load_and_ssa_build_s":            ev.LoadS,
			"functions_encoded":               repoFuncs,
			"stdlib_functions_encoded":        stdFuncs,
			"stubs_called":                    ev.Stubs,
			"groups":                          ev.Groups,
			"inconclusive":                    ev.Inconclusive,
			"incomplete":                      ev.Incomplete,
			"known_findings_hit":              ev.KnownHits,
			"panics_not_in_scope":             ev.PanicsIgnored,
			"repo_global_writes":              ev.GlobalW,
			"violations_found":                ev.Violations,
		},
	}
	if spec != nil && spec.Rule != "" {
		doc["coverage"].(map[string]interface{})["bounds"] = spec.Rule
		if ev.tier == "thorough" && thoroughUsesQuickBounds[ev.id] {
			doc["coverage"].(map[string]interface{})["bounds"] = "THOROUGH TIER OF THIS PROPERTY RUNS THE QUICK BOUNDS (the deeper ones did not finish within the session; see DESIGN 8.16). " + spec.Rule
		}
	}
	b, _ := json.MarshalIndent(doc, "", " ")
	dir := filepath.Join(verifRoot(), "evidence")
	if os.Getenv("VERIF_REPO") != "" || evidencePartial {
		// experiments on a scratch copy of the repository never touch the registered evidence
		dir = filepath.Join(verifRoot(), "work", "evidence-experiment")
	}
	os.MkdirAll(dir, 0o755)
	os.WriteFile(filepath.Join(dir, ev.id+".json"), b, 0o644)
}

func keysOf(m map[string]int64) []string {
	ks := make([]string, 0, len(m))
	for k := range m {
		ks = append(ks, k)
	}
	sort.Strings(ks)
	return ks
}

func isRepoFuncName(f string) bool {
	return len(f) > 0 && (contains(f, "jmeaster30/vore"))
}

func contains(s, sub string) bool {
	for i := 0; i+len(sub) <= len(s); i++ {
		if s[i:i+len(sub)] == sub {
			return true
		}
	}
	return false
}
