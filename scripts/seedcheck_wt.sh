#!/bin/bash
# usage: seedcheck_wt.sh <worktree-with-change-applied> <property-id> [more ids...]
# Runs the checks against a scratch worktree (VERIF_REPO) instead of /repo; evidence, work and replay
# directories of such experiments are kept apart from the registered ones, so several can run at once.
wt=$1; shift
for id in "$@"; do
  start=$(date +%s)
  out=$(VERIF_REPO=$wt /verif/bin/vcheck $id --tier ${TIER:-quick} 2>&1); rc=$?
  echo "== $id rc=$rc $(( $(date +%s)-start ))s"
  echo "$out" | grep -a "^VIOLATION\|^  group\|^  notes\|^INCONCLUSIVE\|^OK\|^KNOWN\|^ENGINE\|^SELFTEST\|^NOTE" | cut -c1-400 | head -${LINES_MAX:-10}
done
