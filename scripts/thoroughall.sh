#!/bin/bash
# usage: thoroughall.sh <ids...>   (from a /verif checkout; builds ./bin/vcheck; sequential)
root=$(cd "$(dirname "$0")/.." && pwd)
[ -x $root/bin/vcheck ] || (cd $root/gosym && GOFLAGS=-mod=mod GOPROXY=off GOSUMDB=off GOTOOLCHAIN=local go build -o $root/bin/vcheck .) || exit 2
for id in "$@"; do
  start=$(date +%s)
  out=$(VERIF_REPO=/repo $root/bin/vcheck $id --tier thorough 2>&1); rc=$?
  echo "$id rc=$rc $(( $(date +%s)-start ))s $(echo "$out" | grep -a '^OK\|^VIOLATION\|^INCONCLUSIVE' | head -3 | tr '\n' ' ' | cut -c1-300)"
done
