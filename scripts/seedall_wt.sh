#!/bin/bash
# usage: seedall_wt.sh [parallel]      (run from a /verif checkout; builds its own vcheck under ./bin)
# Regression over every kept seeded change: each is applied in its own scratch worktree of /repo, the check of
# its property is run against that worktree (VERIF_REPO), the worktree is removed. Expected: rc=1 with a
# VIOLATION line for every seed; rc=0 for the behaviour-preserving refactorings under seeded/benign.
root=$(cd "$(dirname "$0")/.." && pwd)
par=${1:-3}
(cd $root/gosym && GOFLAGS=-mod=mod GOPROXY=off GOSUMDB=off GOTOOLCHAIN=local go build -o $root/bin/vcheck .) || exit 2
out=$root/work/seedall; mkdir -p $out; rm -f $out/*.txt
one() {
  dir=$1; name=$(echo $dir | sed "s#$root/seeded/##; s#/#_#g")
  prop=$(python3 -c "import json;print(json.load(open('$dir/meta.json'))['property'])" 2>/dev/null)
  [ -z "$prop" ] && return
  wt=/tmp/sw_$name
  git -C /repo worktree add --detach -q $wt HEAD || return
  if git -C $wt apply $dir/patch.diff 2>/dev/null; then
    start=$(date +%s)
    o=$(VERIF_REPO=$wt VERIF_DEADLINE_S=600 $root/bin/vcheck $prop --tier quick 2>&1); rc=$?
    echo "$name prop=$prop rc=$rc $(( $(date +%s)-start ))s $(echo "$o" | grep -a '^VIOLATION\|^OK\|^INCONCLUSIVE' | head -1 | cut -c1-150)" > $out/$name.txt
    echo "$o" | grep -a "^  group\|^  notes" | head -2 | cut -c1-300 >> $out/$name.txt
  else
    echo "$name prop=$prop PATCH-DOES-NOT-APPLY" > $out/$name.txt
  fi
  git -C /repo worktree remove --force $wt
  rm -rf $root/work/replays-exp_tmp_sw_$name $root/work/exp-_tmp_sw_$name-*
}
export -f one; export root out
ls -d $root/seeded/C?? $root/seeded/round*/C?? | xargs -P $par -I{} bash -c 'one {}'
cat $out/*.txt | grep " prop=" | sort
echo "seeds not reported as violation:"; grep -L "rc=1" $out/*.txt
