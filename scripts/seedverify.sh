#!/bin/bash
# usage: seedverify.sh <ID>   — confirms a sub-agent's seeded change in its scratch worktree /tmp/seed/<ID>:
# the project's test suite passes with the change, the demonstration fails with it and passes without it.
id=$1; base=${SEEDBASE:-/tmp/seed}; wt=$base/$id; seed=$wt/SEED
export GOFLAGS= GOPROXY=off GOSUMDB=off GOTOOLCHAIN=local
git -C $wt reset -q; git -C $wt checkout -q -- . ; git -C $wt clean -fdq -e SEED -e PROPERTY.json -e '*.diff' . 2>/dev/null
git -C $wt apply $seed/patch.diff || { echo "PATCH DOES NOT APPLY"; exit 1; }
# hide the SEED dir from the root module while running the suite
mv $seed $base/.$id.SEED
fail=0
for m in . libvore libvore/algo libvore/ast libvore/bytecode libvore/ds libvore/engine libvore/files; do
  (cd $wt/$m && timeout 600 go test -vet=off -count=1 ./... >/dev/null 2>&1) || { echo "suite FAILS in $m"; fail=1; }
done
mv $base/.$id.SEED $seed
echo "test suite with the change: $([ $fail = 0 ] && echo PASS || echo FAIL)"
demo=$(ls $seed/demo*_test.go* $seed/_demo/*_test.go 2>/dev/null | head -1)
rundemo() {
  if [ -f $seed/demo.sh ]; then (cd $wt && timeout 300 bash $seed/demo.sh >/dev/null 2>&1); echo "demo.sh exit=$?"; return; fi
  pkgline=$(grep -m1 "^package " $demo | awk '{print $2}')
  case $pkgline in files) dir=libvore/files;; ast) dir=libvore/ast;; engine) dir=libvore/engine;; bytecode) dir=libvore/bytecode;; main) dir=.;; *) dir=libvore;; esac
  tag=$(grep -m1 "^//go:build" $demo | awk '{print $2}')
  cp $demo $wt/$dir/zz_seed_demo_test.go
  extra=""; [ "$id" = C19 ] && extra="-race"
  (cd $wt/$dir && timeout 300 go test $extra -tags "$tag" -vet=off -count=1 -run 'TestSeed' -timeout 120s . 2>&1 | grep -a "^--- FAIL\|^FAIL\|^ok\|DATA RACE\|^panic" | sort | uniq -c | head -5)
  rm -f $wt/$dir/zz_seed_demo_test.go
}
echo "--- demonstration WITH the change:"; rundemo
git -C $wt apply -R $seed/patch.diff
echo "--- demonstration WITHOUT the change:"; rundemo
git -C $wt apply $seed/patch.diff
