#!/bin/bash
# Runs the repository's pinned test suite (all modules of the workspace), guard off.
cd /repo || exit 2
fail=0
for m in . ./libvore ./libvore/algo ./libvore/ast ./libvore/bytecode ./libvore/ds ./libvore/engine ./libvore/files ./libvore/testutils; do
  (cd /repo/$m && GOFLAGS= GOPROXY=off GOSUMDB=off GOTOOLCHAIN=local go test -vet=off -count=1 ./... 2>&1 | grep -v "no test files" ) || true
  (cd /repo/$m && GOFLAGS= GOPROXY=off GOSUMDB=off GOTOOLCHAIN=local go test -vet=off -count=1 ./... >/dev/null 2>&1) || fail=1
done
exit $fail
