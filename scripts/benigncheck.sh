#!/bin/bash
# usage: benigncheck.sh <dir-with-patch.diff> <property ids...>
# Applies a behaviour-preserving change to /repo, runs the quick checks (expected: exit 0, no VIOLATION),
# and ALWAYS restores /repo.
dir=$1; shift
if ! git -C /repo diff --quiet; then echo "/repo has uncommitted changes; refusing"; exit 2; fi
git -C /repo apply "$dir/patch.diff" || { echo "patch does not apply"; exit 2; }
trap 'git -C /repo checkout -- . ; git -C /repo clean -fdq -- . >/dev/null 2>&1' EXIT
/verif/scripts/repotest.sh >/dev/null 2>&1; echo "repo test suite with the change: exit=$?"
for id in "$@"; do
  start=$(date +%s)
  out=$(/verif/bin/vcheck $id --tier ${TIER:-quick} 2>&1); rc=$?
  echo "== $id rc=$rc $(( $(date +%s)-start ))s"
  echo "$out" | grep -a "^VIOLATION\|^  group\|^  notes\|^INCONCLUSIVE\|^OK\|^KNOWN\|^ENGINE\|^SELFTEST" | cut -c1-400 | head -${LINES_MAX:-8}
done
