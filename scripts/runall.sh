#!/bin/bash
# Runs every claimed check at the given tier (default quick) and prints one line per property.
tier=${1:-quick}
for id in $(python3 -c "import json;print(' '.join(c['property_id'] for c in json.load(open('/verif/MANIFEST.json'))['checks']))"); do
  start=$(date +%s)
  out=$(/verif/bin/vcheck $id --tier $tier 2>&1)
  rc=$?
  end=$(date +%s)
  echo "$id rc=$rc $((end-start))s $(echo "$out" | grep -a '^OK\|^VIOLATION\|^INCONCLUSIVE' | head -2 | tr '\n' ' ' | cut -c1-160)"
done
