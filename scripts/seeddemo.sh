#!/bin/bash
# usage: seeddemo.sh <worktree> <pkgdir-relative> <tags> <run-regex> [extra go test flags]
# Runs the agent's demonstration with the change applied and with the change reverted (in the scratch worktree; toggled with git apply -R, never git stash: the stash is shared by all worktrees).
wt=$1; pkg=$2; tags=$3; run=$4; shift 4
cp $wt/SEED/demo_test.go $wt/$pkg/zz_seed_demo_test.go
cd $wt/$pkg
echo "--- with the change:"
GOFLAGS= GOPROXY=off GOSUMDB=off GOTOOLCHAIN=local timeout 300 go test -tags "$tags" -vet=off -count=1 -run "$run" "$@" . 2>&1 | grep -a "^--- FAIL\|^FAIL\|^ok\|^PASS\|DATA RACE\|panic:" | sort | uniq -c | head -8
git -C $wt apply -R $wt/SEED/patch.diff
cp $wt/SEED/demo_test.go $wt/$pkg/zz_seed_demo_test.go
echo "--- without the change:"
GOFLAGS= GOPROXY=off GOSUMDB=off GOTOOLCHAIN=local timeout 300 go test -tags "$tags" -vet=off -count=1 -run "$run" "$@" . 2>&1 | grep -a "^--- FAIL\|^FAIL\|^ok\|^PASS\|DATA RACE\|panic:" | sort | uniq -c | head -8
rm -f $wt/$pkg/zz_seed_demo_test.go
git -C $wt apply $wt/SEED/patch.diff
