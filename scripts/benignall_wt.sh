#!/bin/bash
# usage: benignall_wt.sh [parallel]   (from a /verif checkout; builds ./bin/vcheck)
# Every behaviour-preserving refactoring under seeded/benign*/<area> (patch.diff + checks.txt) is applied in a
# scratch worktree and the listed checks are run against it. Expected: rc=0 and no VIOLATION line, for all.
root=$(cd "$(dirname "$0")/.." && pwd)
par=${1:-2}
(cd $root/gosym && GOFLAGS=-mod=mod GOPROXY=off GOSUMDB=off GOTOOLCHAIN=local go build -o $root/bin/vcheck .) || exit 2
out=$root/work/benignall; mkdir -p $out; rm -f $out/*.txt
one() {
  dir=$1; name=$(echo $dir | sed "s#$root/seeded/##; s#/#_#g")
  wt=/tmp/bw_$name
  git -C /repo worktree add --detach -q $wt HEAD || return
  if git -C $wt apply $dir/patch.diff 2>/dev/null; then
    for id in $(cat $dir/checks.txt); do
      start=$(date +%s)
      o=$(VERIF_REPO=$wt VERIF_DEADLINE_S=900 $root/bin/vcheck $id --tier quick 2>&1); rc=$?
      echo "$name $id rc=$rc $(( $(date +%s)-start ))s $(echo "$o" | grep -a '^VIOLATION\|^OK\|^INCONCLUSIVE' | head -1 | cut -c1-160)" >> $out/$name.txt
    done
  else
    echo "$name PATCH-DOES-NOT-APPLY" > $out/$name.txt
  fi
  git -C /repo worktree remove --force $wt
  rm -rf $root/work/replays-exp_tmp_bw_$name $root/work/exp-_tmp_bw_$name-*
}
export -f one; export root out
ls -d $root/seeded/benign*/* | xargs -P $par -I{} bash -c 'one {}'
cat $out/*.txt
echo "not quiet:"; grep -h -v "rc=0" $out/*.txt
