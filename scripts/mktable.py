#!/usr/bin/env python3
# prints the markdown table of DESIGN §8.3 from the evidence files of the last run
import json, glob, os
rows=[]
for f in sorted(glob.glob('/verif/evidence/C*.json')):
    d=json.load(open(f)); c=d['coverage']
    groups=", ".join("%s %d/%d"%(k,v['jobs'],v['paths']) for k,v in sorted(c['groups'].items()))
    rows.append("| %s | %s | %d | %d | %d | %.0f s | %.0f s |"%(d['property_id'],groups,c['jobs'],c['states'],c['queries']['total'],c['solver_time_s'],d['wall_s']))
print("| id | groups (jobs/paths) | jobs | paths | queries | solver time | wall |\n|---|---|---|---|---|---|---|")
print("\n".join(rows))
