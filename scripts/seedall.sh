#!/bin/bash
# usage: seedall.sh ID...   (sequential; log to stdout)
for id in "$@"; do
  echo "===== $id $(date +%H:%M:%S)"
  /verif/scripts/seedverify.sh $id 2>&1 | grep -v "^WARNING"
  mkdir -p /verif/seeded/$id; cp -r /tmp/seed/$id/SEED/* /verif/seeded/$id/ 2>/dev/null
  VERIF_DEADLINE_S=420 LINES_MAX=4 /verif/scripts/seedcheck.sh /verif/seeded/$id $id 2>&1 | grep -v "^WARNING" | cut -c1-260
done
echo "===== DONE"
