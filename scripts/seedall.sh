#!/bin/bash
# usage: [SEEDBASE=/tmp/seed2] [OUT=seeded2] seedall.sh ID...   (sequential; log to stdout)
base=${SEEDBASE:-/tmp/seed}; out=${OUT:-seeded}
for id in "$@"; do
  echo "===== $id $(date +%H:%M:%S)"
  SEEDBASE=$base /verif/scripts/seedverify.sh $id 2>&1 | grep -v "^WARNING"
  mkdir -p /verif/$out/$id; cp -r $base/$id/SEED/* /verif/$out/$id/ 2>/dev/null
  VERIF_DEADLINE_S=600 LINES_MAX=4 /verif/scripts/seedcheck.sh /verif/$out/$id $id 2>&1 | grep -v "^WARNING" | cut -c1-260
done
echo "===== DONE"
