#!/usr/bin/env python3
"""Regenerates /verif/MANIFEST.json from the table below (kept next to the checks so it stays current)."""
import json, sys
claimed = {
 "C01": ("Bounded symbolic model checking of the real parse->generate->VM pipeline against a reference backtracking matcher: for every program shape of the listed family and every ASCII text up to the stated length (and symbolic literal bytes) the solver shows the span lists equal, or returns a concrete (program, text) that is replayed natively. Families: hand-written shapes, a generated quantifier x quantifier x position family (900 programs), an enumerated grammar family addressed by index (68 400 programs, sampled per tier), and programs with closed-form answers on long texts u^k t with k symbolic around powers of two.", "5/C01, 8.14, 8.15"),
 "C02": ("Same technique; per reported match the Variables map must have exactly the bindings of the reference matcher's successful path, with the bound text; back-reference shapes compare spans too. Families include a generated family of captures behind choice points in abandoning contexts (149 programs) and the enumerated grammar family (sampled).", "5/C02, 8.14, 8.15"),
 "C03": ("Assertions on the real output alone (offset bounds, Value==text[Start:End], order, non-overlap, MatchNumber, line/column recomputed from the symbolic text, variables substrings) for every text up to the bound, all 256 byte values for the offset claims. Also: the generated capture family under these assertions, and closed-form offsets/lines/columns on texts of k lines with k symbolic around powers of two.", "5/C03, 8.14, 8.15"),
 "C04": ("Relational check on the real engine: the five amount clauses with symbolic s,t,n in [0,4] must return windows of the sequence found by 'all', field by field incl. MatchNumber; amount parsing checked on the real lexer/parser with symbolic digits. Large windows: k matches with k symbolic in a window around 64 (thorough 0..140) and amounts symbolic up to 36 (thorough 70).", "5/C04, 8.14"),
 "C05": ("Replacement compared with the concatenation of the with-items evaluated on the same match record for every text up to the bound; replace vs find agreement. Bodies include captures reached through named patterns, inline subroutines and counted loops.", "5/C05, 8.14"),
 "C06": ("The real RunFiles is executed symbolically over a model file system (os calls redirected to an in-memory model honouring the POSIX/io contracts) for every file content up to the bound, symbolic replace mode and a stale .vored file; the final file system is compared with the exact splice and the per-mode footprint. Large files: gaps between matches symbolic among classes around half and whole read buffer, modes NEW and OVERWRITE.", "5/C06, 8.14"),
 "C07": ("One inductive step of the real BufferedFile.Seek/Read from an arbitrary invariant-satisfying window state over an abstract file of symbolic size (covers every file size below 2^40 and every seek/read history), NewBufferedFile and files.Reader lemmas, and whole-pipeline agreement RunFiles vs Run for small files. Through the public API: RunFiles vs Run for multi-command programs, files named twice, modes NOTHING/NEW, and one engine read of n bytes for every n up to 300 and around powers of two up to 8193.", "5/C07, 8.14"),
 "C08": ("Every implicit run-time check of the real lexer, parser, regex sub-parser and generator is a solver query over arbitrary bytes / arbitrary token-type sequences up to the bound (plus corpus prefixes reaching deep states); hangs are unwinding-assertion failures; accepted ASTs are walked for holes. Process code: statement skeletons whose holes are variables (assignment chains inside loops) through Compile.", "5/C08, 8.14"),
 "C09": ("Every implicit run-time check (index, slice, nil, division, type assertion) and explicit panic of the real code is a solver query on every explored path; boundary programs x all texts up to the bound. RunFiles over the model file system: single and multi-command programs x contents incl. the empty file x modes x file named twice.", "5/C09, 8.14"),
 "C10": ("Unwinding assertion on the real VM loop: every path over the nullable-body family must return within a budget two orders of magnitude above the measured maximum; exhausted budgets are replayed natively under a timeout. The family also holds guarded recursion: every atom kind (incl. negated classes and lists) in front of every form of a recursive call.", "5/C10, 8.14"),
 "C11": ("The real evaluator (executeExpression) is executed symbolically against the documented operator/coercion table with symbolic operator, operand kinds and values (64-bit ints, symbolic strings, bools); the real Pratt parser is checked against the documented precedence levels for all operator sequences up to the bound. Source level, exported entry points only: expressions written in a transform, compiled by Compile and evaluated by Run on a symbolic text, symbolic operator, operands as string / parsed number / comparison / matchLength; the white-box groups are optional deepening.", "5/C11, 8.15"),
 "C12": ("The real checker is compared with the documented typing table (accept iff listed, inferred type, accepted code evaluates to that type) for every operator x operand-type combination, and with a reference statement checker over skeleton x expression-menu programs in both contexts through the real Compile. Relational, no oracle: a source with two definitions sharing variable names is accepted exactly when each is accepted alone. The groups that call the checker directly are optional deepening.", "5/C12, 8.14, 8.15"),
 "C14": ("Real Compile+Run of regex literals against an independent backtracking regex engine written in the harness (own parser, groups numbered by opening parenthesis) on every ASCII text up to the bound: spans and group bindings. Regex list includes adjacent variable-length groups whose division of the text is decided by a back-reference.", "5/C14, 8.14"),
 "C15": ("Relational check through the real lexer and parser: for every gap of every corpus program (symbolic index) and every filler kind the program stays accepted with an identical syntax tree; comment bodies and keyword letter case are symbolic. Fillers longer than the lexer's read buffer: every length in a window around 4096 (thorough also 2048, 8192).", "5/C15, 8.14"),
 "C16": ("The real lexer on quote + arbitrary ASCII bytes + quote (every spelling of every string that fits the bound) against refUnescape; API level: the compiled literal matches exactly the spelled text among all texts of that length. Literals longer than the lexer's read buffer with three arbitrary bytes straddling the buffer boundary at every alignment.", "5/C16, 8.15"),
 "C17": ("The real Json/FormattedJson/MarshalJSON code is executed symbolically with encoding/json replaced by a type-directed codec stub that honours the Marshaler contract; both renderings are parsed back and compared with the in-memory matches for every ASCII text (incl. quotes, backslashes, control characters) up to the bound. Reduced form: byte-level escaping of the real encoder is outside the claim.", "5/C17, 6"),
 "C18": ("The real main() is executed symbolically under a flag/exit/stdout/file-system model over the cross product of documented flag values (booleans symbolic); exit status, stdout JSON, JSON files and per-mode file effects are asserted; counterexamples are replayed against the built binary. Reduced form: argv parsing and process plumbing are modelled. Every emitted document is compared with the in-memory matches of the library call (not only with the library's own rendering); programs include an empty replacement; pre-existing output files.", "5/C18, 6, 8.14"),
 "C19": ("(1) Footprint/lockset analysis over all explored paths of Compile and Run: no write into the shared compiled program; every written package-level variable, init-time heap object/map and object published into shared memory is consistently protected by one mutex; since libvore starts no goroutines, empty write footprints cover all interleavings. (2) Two-thread symbolic scheduler over the real code: Compile||Compile for all pairs of 8 sources and Run||Run||Compile on a shared program, a symbolic switch decision at every synchronisation point (<= 3 preemptions), each call must return its sequential result. Counterexamples are confirmed natively under the race detector.", "5/C19, 8.13"),
 "C20": ("The real segment matcher against the recursive definition of '*' with every pattern/name byte symbolic, and the real ParsePath/GetFileList over the model file system with symbolic entry names and is-directory bits. Depth-3 trees with symbolic kind of every entry and 1..3-segment patterns, relative and absolute (below the working directory).", "5/C20, 8.14, 8.15"),
 "C13": ("Relational check real-vs-real: named (inline subroutine / global pattern) and written-out sources must give equal matches on every text up to the bound; repeated Run, recompilation, and a write-footprint check (bytecode frozen during Run). Process code: two definitions sharing variable names with one command each; the combined result is the concatenation of the results alone.", "5/C13, 8.15"),
}
na = {
}
techn = "bounded symbolic execution of the real go/ssa (gosym) + SMT (z3), counterexamples replayed natively"
thorough_quick = {"C01", "C04", "C07", "C08", "C10", "C16"}
note = "Trusted: go/ssa semantics as implemented by gosym (selftest + native replay), z3 verdicts, stub contracts listed in evidence. Bounds (text length, shape family, ranges) are stated in evidence.coverage.bounds; nothing is claimed outside them."
checks = []
for pid in sorted(claimed):
    text, ref = claimed[pid]
    checks.append({
        "property_id": pid,
        "quick_cmd": f"/verif/bin/vcheck {pid} --tier quick",
        "thorough_cmd": f"/verif/bin/vcheck {pid} --tier thorough",
        "evidence_file": f"/verif/evidence/{pid}.json",
        "replay_cmd_template": "/verif/bin/vcheck replay {path}",
        "engine": "gosym",
        "level_claimed": {"category": "model_checking", "text": text, "design_ref": "DESIGN.md §" + ref},
        "level_note": note + (" The thorough command of this property currently explores the quick bounds (with the thorough tier's time limits and three-solver cross-check): its deeper bounds did not finish within the session in which the harnesses were last extended (DESIGN 8.16)." if pid in thorough_quick else ""),
        "technique": techn,
    })
props = [json.loads(l)["id"] for l in open("/verif/properties.jsonl")]
not_app = []
for pid in props:
    if pid not in claimed:
        not_app.append({"property_id": pid, "reason": na.get(pid, "check not built yet in this session (planned, see DESIGN.md §5); not claimed")})
m = {
 "version": 1,
 "setup_cmd": "cd /verif/gosym && GOFLAGS=-mod=mod GOPROXY=off GOSUMDB=off GOTOOLCHAIN=local go build -o /verif/bin/vcheck .",
 "hooks": {"guard": "verif", "enable": "none needed: harnesses are injected as go/packages overlays and `go test -overlay`; no file in /repo is guarded", "baseline_off_cmd": "/verif/scripts/repotest.sh", "source_commits": [], "add_only": True},
 "engines": [{"name": "gosym", "path": "/verif/gosym", "serves_properties": sorted(claimed), "kind_free_text": "symbolic executor for go/ssa (x/tools v0.29.0) written for this task; path-wise exploration, concrete heap shape, bit-vector leaves, z3 over a pipe; native replay through go test -overlay"}],
 "checks": checks,
 "not_applicable": not_app,
 "notes": "Exit codes: 0 held / known findings only, 1 VIOLATION (reproduced natively), 3 inconclusive (engine limitation; never reported as success).",
}
json.dump(m, open("/verif/MANIFEST.json", "w"), indent=1)
print("claimed", len(checks), "not_applicable", len(not_app))
