package main

import (
	"github.com/jmeaster30/vore/libvore"
	"github.com/jmeaster30/vore/libvore/engine"
)

// C18: the CLI delivers the library's results under every documented flag combination.
// Under gosym vRunMain executes the real main() with flag values supplied by the harness, os.Exit /
// log.Fatal recorded as exit status, fmt.Print* captured as stdout and the model file system;
// natively it runs the built binary in a scratch directory.

const c18Find = "find all 'a'"
const c18Replace = "replace all 'a' with 'xy'"
const c18ReplaceEmpty = "replace all 'a' with ''"
const c18FindAny = "find all any"
const c18Bad = "find every 'a'"

func VerifC18(program int, files int, mode int, twin int) {
	vfsInit()
	defer vfsDone()
	content := c18Text("content", 1, 2)
	for i := 0; i < len(content); i++ {
		vAssume(content[i] >= 0x20 && content[i] < 0x7f)
	}
	vfsWrite("f1.txt", content)
	vfsWrite("f2.txt", "ba")
	vfsWrite("prog.vore", c18Find)
	// the named JSON files may exist already, left by an earlier run with more matches
	stale := vBool("stale output files")
	staleTxt := ""
	if stale {
		for i := 0; i < 150; i++ {
			staleTxt += "[{\"stale\":true},0]  \n"
		}
		vfsWrite("out.json", staleTxt)
		vfsWrite("outf.json", staleTxt)
	}
	useJSON := vBool("-json")
	useFJSON := vBool("-formatted-json")
	noOutput := vBool("-no-output")
	jsonFile := vBool("-json-file given")
	fjsonFile := vBool("-formatted-json-file given")

	strFlags := []string{}
	boolFlags := []string{}
	prog := ""
	valid := true
	isReplace := false
	replText := "xy"
	switch program {
	case 0:
		strFlags = append(strFlags, "com", c18Find)
		prog = c18Find
	case 1:
		strFlags = append(strFlags, "com", c18Replace)
		prog = c18Replace
		isReplace = true
	case 2:
		strFlags = append(strFlags, "com", c18Bad)
		valid = false
	case 3:
		strFlags = append(strFlags, "src", "prog.vore")
		prog = c18Find
	case 4: // neither -com nor -src
		valid = false
	case 5: // both
		strFlags = append(strFlags, "com", c18Find, "src", "prog.vore")
		valid = false
	case 7: // every byte of the file is a match: the JSON carries arbitrary printable characters (quotes, %, backslashes)
		strFlags = append(strFlags, "com", c18FindAny)
		prog = c18FindAny
	case 6: // a replacement that is the empty string
		strFlags = append(strFlags, "com", c18ReplaceEmpty)
		prog = c18ReplaceEmpty
		isReplace = true
		replText = ""
	}
	fileArg := ""
	var expectFiles []string
	switch files {
	case 0:
		fileArg = "f1.txt"
		expectFiles = []string{"f1.txt"}
	case 1:
		fileArg = "f*.txt"
		expectFiles = []string{"f1.txt", "f2.txt"}
	case 2:
		fileArg = "nomatch*"
	case 3: // -files absent
		valid = false
	}
	if files != 3 {
		strFlags = append(strFlags, "files", fileArg)
	}
	wantMode := engine.NEW
	switch mode {
	case 1:
		strFlags = append(strFlags, "replace-mode", "NEW")
	case 2:
		strFlags = append(strFlags, "replace-mode", "NOTHING")
		wantMode = engine.NOTHING
	case 3:
		strFlags = append(strFlags, "replace-mode", "OVERWRITE")
		wantMode = engine.OVERWRITE
	case 4:
		strFlags = append(strFlags, "replace-mode", "BOGUS")
		valid = false
	}
	if useJSON {
		boolFlags = append(boolFlags, "json")
	}
	if useFJSON {
		boolFlags = append(boolFlags, "formatted-json")
	}
	if useJSON && useFJSON {
		valid = false
	}
	if noOutput {
		boolFlags = append(boolFlags, "no-output")
	}
	if jsonFile {
		strFlags = append(strFlags, "json-file", "out.json")
	}
	if fjsonFile {
		strFlags = append(strFlags, "formatted-json-file", "outf.json")
	}
	desc := ""
	for i := 0; i+1 < len(strFlags); i += 2 {
		desc += "-" + strFlags[i] + "=" + strFlags[i+1] + " "
	}
	for _, b := range boolFlags {
		desc += "-" + b + " "
	}
	vNote("source", "vore "+desc)
	vNote("content", content)
	if stale {
		vNote("stale", "out.json and outf.json exist before the run (3000 bytes)")
	}

	// what the library returns for the same program and files (mode NOTHING: matches do not depend on the mode)
	var expected engine.Matches
	if valid && len(expectFiles) > 0 {
		v, err := libvore.Compile(prog)
		if err != nil {
			vFail("harness: program does not compile")
		}
		paths := []string{}
		for _, f := range expectFiles {
			paths = append(paths, "./"+f)
		}
		expected = v.RunFiles(paths, engine.NOTHING, false)
	}
	replaceModeArg = engine.NEW // package-level default, as at process start

	exit, stdout, stderr := vRunMain(strFlags, boolFlags)
	vNoteInt("exit", exit)
	vNote("stdout", stdout)
	if twin != 0 {
		vFail("TWIN reached the assertions")
	}
	f1, _ := vfsRead("f1.txt")
	f2, _ := vfsRead("f2.txt")
	_, vored1 := vfsRead("f1.txt.vored")
	outJtxt, outJ := vfsRead("out.json")
	outFJtxt, outFJ := vfsRead("outf.json")
	if stale {
		// an invalid invocation must leave the existing files as they were
		outJ = !outJ || outJtxt != staleTxt
		outFJ = !outFJ || outFJtxt != staleTxt
	}
	if !valid {
		if exit == 0 {
			vFail("an invalid invocation exits with status 0")
		}
		if len(stdout) == 0 && len(stderr) == 0 {
			vFail("an invalid invocation prints no message")
		}
		if f1 != content || f2 != "ba" || vored1 || outJ || outFJ {
			vFail("an invalid invocation modified or created a file")
		}
		return
	}
	if exit != 0 {
		vNote("stderr", stderr)
		vFail("a documented invocation does not exit with status 0")
	}
	if len(expectFiles) == 0 {
		return
	}
	// replace commands honour the mode (default NEW)
	if isReplace {
		spliced := ""
		for i := 0; i < len(content); i++ {
			if content[i] == 'a' {
				spliced += replText
			} else {
				spliced += string(content[i])
			}
		}
		got1, has1 := vfsRead("f1.txt.vored")
		switch wantMode {
		case engine.NEW:
			if f1 != content || !has1 || got1 != spliced {
				vFail("replace with mode NEW (or default) did not leave the file untouched and write <file>.vored")
			}
		case engine.NOTHING:
			if f1 != content || has1 {
				vFail("replace with mode NOTHING changed a file")
			}
		case engine.OVERWRITE:
			if f1 != spliced || has1 {
				vFail("replace with mode OVERWRITE did not rewrite the searched file only")
			}
		}
	} else if f1 != content || f2 != "ba" || vored1 {
		vFail("a find command modified a file")
	}
	if noOutput || len(expected) == 0 {
		return
	}
	want, okW := jparse(expected.Json())
	if !okW {
		vFail("harness: library JSON does not parse")
	}
	c18BaseNames(want)
	// the library's result is the in-memory match list: every document the tool emits is compared with it
	// (c18SameAsMatches) as well as with the library's own rendering
	if useJSON || useFJSON {
		doc, ok := jparse(stdout)
		c18BaseNames(doc)
		if !ok {
			vFail("standard output under -json/-formatted-json is not exactly one JSON document")
		}
		if !jequal(doc, want) || !c18SameAsMatches(doc, expected) {
			vFail("the JSON on standard output differs from the library's result")
		}
	}
	if jsonFile {
		txt, has := vfsRead("out.json")
		doc, ok := jparse(txt)
		c18BaseNames(doc)
		if !has || !ok || !jequal(doc, want) || !c18SameAsMatches(doc, expected) {
			vNote("out.json", txt)
			vNote("library", expected.Json())
			vFail("-json-file does not contain exactly the library's result as JSON")
		}
	}
	if fjsonFile {
		txt, has := vfsRead("outf.json")
		doc, ok := jparse(txt)
		c18BaseNames(doc)
		if !has || !ok || !jequal(doc, want) || !c18SameAsMatches(doc, expected) {
			vFail("-formatted-json-file does not contain exactly the library's result as JSON")
		}
	}
}

func c18Text(label string, minLen int, maxLen int) string {
	n := minLen + vPick(label+".len", maxLen-minLen+1)
	b := make([]byte, n)
	for i := range b {
		b[i] = vByte(label)
	}
	return string(b)
}

// c18BaseNames: the tool spells a file the way its own directory walk found it (an absolute path on a real
// system), the library call of the harness spells it "./name": the same file. File names are compared by
// their last path element.
func c18BaseNames(doc *jv) {
	if doc == nil || doc.kind != 4 {
		return
	}
	for _, m := range doc.arr {
		if m == nil || m.kind != 5 {
			continue
		}
		for i, k := range m.keys {
			if k == "filename" && m.vals[i] != nil && m.vals[i].kind == 3 {
				name := m.vals[i].s
				for j := len(name) - 1; j >= 0; j-- {
					if name[j] == '/' {
						name = name[j+1:]
						break
					}
				}
				m.vals[i].s = name
			}
		}
	}
}

func c18Base(name string) string {
	for j := len(name) - 1; j >= 0; j-- {
		if name[j] == '/' {
			return name[j+1:]
		}
	}
	return name
}

func c18RangeIs(o *jv, start int, end int) bool {
	if o == nil || o.kind != 5 || len(o.keys) != 2 {
		return false
	}
	s, e := o.get("start"), o.get("end")
	return s != nil && e != nil && s.kind == 2 && e.kind == 2 && s.n == start && e.n == end
}

// c18SameAsMatches: the document is an array with one object per in-memory match, carrying exactly that
// match (the programs of this harness bind no variables).
func c18SameAsMatches(doc *jv, ms engine.Matches) bool {
	if doc == nil || doc.kind != 4 || len(doc.arr) != len(ms) {
		return false
	}
	for i, m := range ms {
		o := doc.arr[i]
		keys := 7
		if m.Replacement.HasValue() {
			keys = 8
		}
		if o == nil || o.kind != 5 || len(o.keys) != keys {
			return false
		}
		fn, mn, val, vars := o.get("filename"), o.get("matchNumber"), o.get("value"), o.get("variables")
		if fn == nil || fn.kind != 3 || c18Base(fn.s) != c18Base(m.Filename) || mn == nil || mn.kind != 2 || mn.n != m.MatchNumber || val == nil || val.kind != 3 || val.s != m.Value {
			return false
		}
		if vars == nil || vars.kind != 5 || len(vars.keys) != m.Variables.Len() {
			return false
		}
		if !c18RangeIs(o.get("offset"), m.Offset.Start, m.Offset.End) || !c18RangeIs(o.get("line"), m.Line.Start, m.Line.End) || !c18RangeIs(o.get("column"), m.Column.Start, m.Column.End) {
			return false
		}
		rep := o.get("replacement")
		if m.Replacement.HasValue() != (rep != nil) {
			return false
		}
		if rep != nil && (rep.kind != 3 || rep.s != m.Replacement.GetValue()) {
			return false
		}
	}
	return true
}
