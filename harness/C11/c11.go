package engine

import (
	"strconv"

	"github.com/jmeaster30/vore/libvore/ast"
	"github.com/jmeaster30/vore/libvore/bytecode"
)

// C11 / C12 unit harness on the real evaluator (executeExpression) and the real checker
// (through the bytecode shim), against the documented operator/coercion table.

const (
	rkErr = iota
	rkString
	rkNumber
	rkBool
)

type refVal struct {
	kind int
	s    string
	n    int
	b    bool
}

func (v refVal) str() string {
	switch v.kind {
	case rkString:
		return v.s
	case rkNumber:
		return strconv.Itoa(v.n) // the table: number -> string is strconv.Itoa(number)
	case rkBool:
		if v.b {
			return "true"
		}
		return "false"
	}
	return ""
}

func (v refVal) num() int {
	switch v.kind {
	case rkString:
		n, err := strconv.Atoi(v.s) // the table: strconv.Atoi(string), 0 on error
		if err != nil {
			return 0
		}
		return n
	case rkNumber:
		return v.n
	case rkBool:
		if v.b {
			return 1
		}
		return 0
	}
	return 0
}

func (v refVal) boolean() bool {
	switch v.kind {
	case rkString:
		return len(v.s) != 0
	case rkNumber:
		return v.n != 0
	case rkBool:
		return v.b
	}
	return false
}

var c11BinOps = []ast.TokenType{ast.PLUS, ast.MINUS, ast.MULT, ast.DIV, ast.MOD, ast.DEQUAL, ast.NEQUAL, ast.LESS, ast.GREATER, ast.LESSEQ, ast.GREATEREQ, ast.AND, ast.OR}
var c11OpNames = []string{"+", "-", "*", "/", "%", "==", "!=", "<", ">", "<=", ">=", "and", "or"}

func isCmp(op ast.TokenType) bool {
	return op == ast.DEQUAL || op == ast.NEQUAL || op == ast.LESS || op == ast.GREATER || op == ast.LESSEQ || op == ast.GREATEREQ
}

func isArith(op ast.TokenType) bool {
	return op == ast.PLUS || op == ast.MINUS || op == ast.MULT || op == ast.DIV || op == ast.MOD
}

// refType: the documented table as a typing relation (result kind, or rkErr).
func refType(op ast.TokenType, l int, r int) int {
	switch l {
	case rkString:
		if op == ast.PLUS {
			return rkString
		}
		if isCmp(op) {
			return rkBool
		}
		if r == rkNumber && (op == ast.MINUS || op == ast.MULT || op == ast.DIV || op == ast.MOD) {
			return rkNumber
		}
	case rkBool:
		if op == ast.AND || op == ast.OR || isCmp(op) {
			return rkBool
		}
	case rkNumber:
		if isCmp(op) {
			return rkBool
		}
		if isArith(op) {
			return rkNumber
		}
	}
	return rkErr
}

func cmpInt(op ast.TokenType, a int, b int) bool {
	switch op {
	case ast.DEQUAL:
		return a == b
	case ast.NEQUAL:
		return a != b
	case ast.LESS:
		return a < b
	case ast.GREATER:
		return a > b
	case ast.LESSEQ:
		return a <= b
	}
	return a >= b
}

func cmpStr(op ast.TokenType, a string, b string) bool {
	switch op {
	case ast.DEQUAL:
		return a == b
	case ast.NEQUAL:
		return a != b
	case ast.LESS:
		return a < b
	case ast.GREATER:
		return a > b
	case ast.LESSEQ:
		return a <= b
	}
	return a >= b
}

func arith(op ast.TokenType, a int, b int) int {
	switch op {
	case ast.PLUS:
		return a + b
	case ast.MINUS:
		return a - b
	case ast.MULT:
		return a * b
	case ast.DIV:
		return a / b
	}
	return a % b
}

// refBin: left operand's type selects the operation, the right operand is coerced to it.
func refBin(op ast.TokenType, l refVal, r refVal) refVal {
	switch refType(op, l.kind, r.kind) {
	case rkErr:
		return refVal{kind: rkErr}
	}
	switch l.kind {
	case rkString:
		if op == ast.PLUS {
			return refVal{kind: rkString, s: l.s + r.str()}
		}
		if isCmp(op) {
			return refVal{kind: rkBool, b: cmpStr(op, l.s, r.str())}
		}
		return refVal{kind: rkNumber, n: arith(op, l.num(), r.n)}
	case rkBool:
		switch op {
		case ast.AND:
			return refVal{kind: rkBool, b: l.b && r.boolean()}
		case ast.OR:
			return refVal{kind: rkBool, b: l.b || r.boolean()}
		case ast.DEQUAL:
			return refVal{kind: rkBool, b: l.b == r.boolean()}
		case ast.NEQUAL:
			return refVal{kind: rkBool, b: l.b != r.boolean()}
		}
		// ordering of booleans: on their numeric values 1/0
		return refVal{kind: rkBool, b: cmpInt(op, l.num(), r.num())}
	}
	if isCmp(op) {
		return refVal{kind: rkBool, b: cmpInt(op, l.n, r.num())}
	}
	return refVal{kind: rkNumber, n: arith(op, l.n, r.num())}
}

func refUn(op ast.TokenType, x refVal) refVal {
	switch op {
	case ast.NOT:
		if x.kind == rkBool {
			return refVal{kind: rkBool, b: !x.b}
		}
	case ast.HEAD:
		if x.kind == rkString {
			if len(x.s) == 0 {
				return refVal{kind: rkString, s: ""}
			}
			return refVal{kind: rkString, s: x.s[0:1]}
		}
	case ast.TAIL:
		if x.kind == rkString {
			if len(x.s) <= 1 {
				return refVal{kind: rkString, s: ""}
			}
			return refVal{kind: rkString, s: x.s[1:]}
		}
	}
	return refVal{kind: rkErr}
}

// ---- symbolic operands ----

type c11Operand struct {
	expr ast.AstProcessExpression
	val  refVal
}

func c11SymString(label string, maxLen int) string {
	n := vPick(label+".len", maxLen+1)
	b := make([]byte, n)
	for i := range b {
		b[i] = vByte(label)
		vAssume(b[i] < 0x80)
	}
	return string(b)
}

// kinds: 0 string literal, 1 number literal, 2 bool literal, 3 string variable, 4 number variable, 5 bool variable
func c11MakeOperand(kind int, label string, env map[string]ProcessValue, tenv map[string]bytecode.ProcessType, maxLen int) c11Operand {
	switch kind {
	case 0:
		s := c11SymString(label, maxLen)
		vNote(label, s)
		return c11Operand{ast.AstProcessString{Value: s}, refVal{kind: rkString, s: s}}
	case 1:
		n := vInt(label)
		vNoteInt(label, n)
		return c11Operand{ast.AstProcessNumber{Value: n}, refVal{kind: rkNumber, n: n}}
	case 2:
		b := vBool(label)
		return c11Operand{ast.AstProcessBoolean{Value: b}, refVal{kind: rkBool, b: b}}
	case 3:
		s := c11SymString(label, maxLen)
		vNote(label, s)
		env[label] = ProcessValueString{s}
		tenv[label] = bytecode.PTSTRING
		return c11Operand{ast.AstProcessVariable{Name: label}, refVal{kind: rkString, s: s}}
	case 4:
		n := vInt(label)
		vNoteInt(label, n)
		env[label] = ProcessValueNumber{n}
		tenv[label] = bytecode.PTNUMBER
		return c11Operand{ast.AstProcessVariable{Name: label}, refVal{kind: rkNumber, n: n}}
	}
	b := vBool(label)
	env[label] = ProcessValueBoolean{b}
	tenv[label] = bytecode.PTBOOLEAN
	return c11Operand{ast.AstProcessVariable{Name: label}, refVal{kind: rkBool, b: b}}
}

func c11Kind(t bytecode.ProcessType) int {
	switch t {
	case bytecode.PTSTRING:
		return rkString
	case bytecode.PTNUMBER:
		return rkNumber
	case bytecode.PTBOOLEAN:
		return rkBool
	}
	return rkErr
}

func c11CheckValue(got ProcessValue, want refVal, which string) {
	if c11Kind(got.getType()) != want.kind {
		vFail(which + ": run-time value has a different type than the table's result type")
	}
	switch want.kind {
	case rkString:
		if got.getString() != want.s {
			vNote("got", got.getString())
			vNote("want", want.s)
			vFail(which + ": string result differs from the documented table")
		}
	case rkNumber:
		if got.getNumber() != want.n {
			vNoteInt("got", got.getNumber())
			vNoteInt("want", want.n)
			vFail(which + ": number result differs from the documented table")
		}
	case rkBool:
		if got.getBoolean() != want.b {
			vFail(which + ": boolean result differs from the documented table")
		}
	}
}

// numbers that get rendered as strings or compared after parsing are kept small so that the
// decimal conversion loops stay within reach of the solver
func c11Small(v refVal) {
	if v.kind == rkNumber {
		vAssume(v.n >= -999 && v.n <= 999)
	}
}

// VerifC11Binop: mode 11 checks values (C11), mode 12 checks accept/reject and result type (C12).
func VerifC11Binop(lk int, rk int, mode int, maxLen int, twin int) {
	env := make(map[string]ProcessValue)
	tenv := make(map[string]bytecode.ProcessType)
	opi := vPick("op", len(c11BinOps))
	op := c11BinOps[opi]
	vNote("source", "operand kinds "+strconv.Itoa(lk)+","+strconv.Itoa(rk)+" operator "+c11OpNames[opi])
	l := c11MakeOperand(lk, "lhs", env, tenv, maxLen)
	r := c11MakeOperand(rk, "rhs", env, tenv, maxLen)
	var expr ast.AstProcessExpression = ast.AstProcessBinaryExpression{Op: op, Lhs: l.expr, Rhs: r.expr}
	gotT := bytecode.VCheckExpr(expr, tenv)
	wantT := refType(op, l.val.kind, r.val.kind)
	if twin != 0 {
		vFail("TWIN reached the comparison")
	}
	if mode == 12 {
		if (gotT == bytecode.PTERROR) != (wantT == rkErr) {
			vFail("C12: checker accepts/rejects an operator x operand-type combination contrary to the documented table")
		}
		if wantT != rkErr && c11Kind(gotT) != wantT {
			vFail("C12: inferred type differs from the table's result type")
		}
	}
	if gotT == bytecode.PTERROR || wantT == rkErr {
		return
	}
	// accepted: evaluate
	if l.val.kind == rkString && r.val.kind == rkNumber && (op == ast.PLUS || isCmp(op)) {
		c11Small(r.val)
	}
	if op == ast.DIV || op == ast.MOD {
		vAssume(r.val.num() != 0) // division by zero is C09's subject
	}
	state := ProcessState{currentValue: ProcessValueString{""}, environment: env, status: NEXT}
	got := executeExpression(&expr, state).currentValue
	vReach("evaluated")
	want := refBin(op, l.val, r.val)
	if mode == 11 {
		c11CheckValue(got, want, "C11")
	} else {
		// C12 soundness: accepted code evaluates to a value of the inferred type
		if c11Kind(got.getType()) != wantT {
			vFail("C12: accepted expression evaluates to a value of another type")
		}
	}
}

var c11UnOps = []ast.TokenType{ast.NOT, ast.HEAD, ast.TAIL}

func VerifC11Unary(k int, mode int, maxLen int) {
	env := make(map[string]ProcessValue)
	tenv := make(map[string]bytecode.ProcessType)
	opi := vPick("op", len(c11UnOps))
	op := c11UnOps[opi]
	vNote("source", "unary operator "+strconv.Itoa(opi)+" on operand kind "+strconv.Itoa(k))
	x := c11MakeOperand(k, "x", env, tenv, maxLen)
	var expr ast.AstProcessExpression = ast.AstProcessUnaryExpression{Op: op, Expr: x.expr}
	gotT := bytecode.VCheckExpr(expr, tenv)
	want := refUn(op, x.val)
	if mode == 12 {
		if (gotT == bytecode.PTERROR) != (want.kind == rkErr) {
			vFail("C12: checker accepts/rejects a unary operator contrary to the documented table")
		}
		if want.kind != rkErr && c11Kind(gotT) != want.kind {
			vFail("C12: inferred type of a unary expression differs from the table")
		}
	}
	if gotT == bytecode.PTERROR || want.kind == rkErr {
		return
	}
	state := ProcessState{currentValue: ProcessValueString{""}, environment: env, status: NEXT}
	got := executeExpression(&expr, state).currentValue
	vReach("evaluated")
	if mode == 11 {
		c11CheckValue(got, want, "C11")
	} else if c11Kind(got.getType()) != want.kind {
		vFail("C12: accepted unary expression evaluates to a value of another type")
	}
}

// VerifC11Nested: (a op1 b) op2 c and a op1 (b op2 c) with symbolic operators: composition.
func VerifC11Nested(lk int, mk int, rk int, shape int, mode int) {
	env := make(map[string]ProcessValue)
	tenv := make(map[string]bytecode.ProcessType)
	o1 := vPick("op1", len(c11BinOps))
	o2 := vPick("op2", len(c11BinOps))
	vNote("source", "nested kinds "+strconv.Itoa(lk)+","+strconv.Itoa(mk)+","+strconv.Itoa(rk)+" shape "+strconv.Itoa(shape)+" ops "+c11OpNames[o1]+" "+c11OpNames[o2])
	a := c11MakeOperand(lk, "a", env, tenv, 1)
	b := c11MakeOperand(mk, "b", env, tenv, 1)
	c := c11MakeOperand(rk, "c", env, tenv, 1)
	for _, v := range []refVal{a.val, b.val, c.val} {
		if v.kind == rkNumber {
			vAssume(v.n >= -99 && v.n <= 99) // two-digit numbers: composition is the subject here, conversions are VerifC11Binop's
		}
	}
	var expr ast.AstProcessExpression
	var want refVal
	isDiv := func(op ast.TokenType) bool { return op == ast.DIV || op == ast.MOD }
	if shape == 0 {
		expr = ast.AstProcessBinaryExpression{Op: c11BinOps[o2], Lhs: ast.AstProcessBinaryExpression{Op: c11BinOps[o1], Lhs: a.expr, Rhs: b.expr}, Rhs: c.expr}
		if refType(c11BinOps[o1], a.val.kind, b.val.kind) == rkErr {
			want = refVal{kind: rkErr}
		} else {
			if isDiv(c11BinOps[o1]) {
				vAssume(b.val.num() != 0)
			}
			if c11BinOps[o1] == ast.MULT {
				// keep products small enough for the decimal rendering below
				vAssume(a.val.num() >= -9 && a.val.num() <= 9 && b.val.num() >= -9 && b.val.num() <= 9)
			}
			inner := refBin(c11BinOps[o1], a.val, b.val)
			if refType(c11BinOps[o2], inner.kind, c.val.kind) == rkErr {
				want = refVal{kind: rkErr}
			} else {
				if isDiv(c11BinOps[o2]) {
					vAssume(c.val.num() != 0)
				}
				want = refBin(c11BinOps[o2], inner, c.val)
			}
		}
	} else {
		expr = ast.AstProcessBinaryExpression{Op: c11BinOps[o1], Lhs: a.expr, Rhs: ast.AstProcessBinaryExpression{Op: c11BinOps[o2], Lhs: b.expr, Rhs: c.expr}}
		if refType(c11BinOps[o2], b.val.kind, c.val.kind) == rkErr {
			want = refVal{kind: rkErr}
		} else {
			if isDiv(c11BinOps[o2]) {
				vAssume(c.val.num() != 0)
			}
			if c11BinOps[o2] == ast.MULT {
				vAssume(b.val.num() >= -9 && b.val.num() <= 9 && c.val.num() >= -9 && c.val.num() <= 9)
			}
			inner := refBin(c11BinOps[o2], b.val, c.val)
			if refType(c11BinOps[o1], a.val.kind, inner.kind) == rkErr {
				want = refVal{kind: rkErr}
			} else {
				if isDiv(c11BinOps[o1]) {
					vAssume(inner.num() != 0)
				}
				want = refBin(c11BinOps[o1], a.val, inner)
			}
		}
	}
	gotT := bytecode.VCheckExpr(expr, tenv)
	if mode == 12 {
		if (gotT == bytecode.PTERROR) != (want.kind == rkErr) {
			vFail("C12: checker accepts/rejects a nested expression contrary to the documented table")
		}
	}
	if gotT == bytecode.PTERROR || want.kind == rkErr {
		return
	}
	state := ProcessState{currentValue: ProcessValueString{""}, environment: env, status: NEXT}
	got := executeExpression(&expr, state).currentValue
	vReach("evaluated")
	if mode == 11 {
		c11CheckValue(got, want, "C11")
	} else if c11Kind(got.getType()) != want.kind {
		vFail("C12: accepted nested expression evaluates to a value of another type")
	}
}
