package libvore

import "strconv"

// C11 at source level: the expression is written in a transform, compiled with Compile and evaluated by Run;
// nothing but exported entry points is used, so the check survives any renaming inside the evaluator, the
// checker or the parser. Operands are built from the matched text (symbolic): strings are `head match`
// and `tail match`, numbers `0 + head match` / `0 + tail match` (decimal parse or 0) and matchLength,
// booleans comparisons of those. The oracle is the documented table, transcribed below independently of
// harness/C11/c11.go's copy for the white-box groups.

const (
	skErr = iota
	skString
	skNumber
	skBool
)

type srcVal struct {
	kind int
	s    string
	n    int
	b    bool
}

func (v srcVal) str() string {
	switch v.kind {
	case skString:
		return v.s
	case skNumber:
		return strconv.Itoa(v.n)
	case skBool:
		if v.b {
			return "true"
		}
		return "false"
	}
	return ""
}

func (v srcVal) num() int {
	switch v.kind {
	case skString:
		n, err := strconv.Atoi(v.s)
		if err != nil {
			return 0
		}
		return n
	case skNumber:
		return v.n
	case skBool:
		if v.b {
			return 1
		}
	}
	return 0
}

func (v srcVal) boolean() bool {
	switch v.kind {
	case skString:
		return len(v.s) != 0
	case skNumber:
		return v.n != 0
	case skBool:
		return v.b
	}
	return false
}

var s11Ops = []string{"+", "-", "*", "/", "%", "==", "!=", "<", ">", "<=", ">=", "and", "or"}

func s11IsCmp(op int) bool   { return op >= 5 && op <= 10 }
func s11IsArith(op int) bool { return op <= 4 }

func s11Type(op int, l int, r int) int {
	switch l {
	case skString:
		if op == 0 {
			return skString
		}
		if s11IsCmp(op) {
			return skBool
		}
		if r == skNumber && op >= 1 && op <= 4 {
			return skNumber
		}
	case skBool:
		if op == 11 || op == 12 || s11IsCmp(op) {
			return skBool
		}
	case skNumber:
		if s11IsCmp(op) {
			return skBool
		}
		if s11IsArith(op) {
			return skNumber
		}
	}
	return skErr
}

func s11CmpInt(op int, a int, b int) bool {
	switch op {
	case 5:
		return a == b
	case 6:
		return a != b
	case 7:
		return a < b
	case 8:
		return a > b
	case 9:
		return a <= b
	}
	return a >= b
}

func s11CmpStr(op int, a string, b string) bool {
	switch op {
	case 5:
		return a == b
	case 6:
		return a != b
	case 7:
		return a < b
	case 8:
		return a > b
	case 9:
		return a <= b
	}
	return a >= b
}

func s11Arith(op int, a int, b int) int {
	switch op {
	case 0:
		return a + b
	case 1:
		return a - b
	case 2:
		return a * b
	case 3:
		return a / b
	}
	return a % b
}

func s11Bin(op int, l srcVal, r srcVal) srcVal {
	if s11Type(op, l.kind, r.kind) == skErr {
		return srcVal{kind: skErr}
	}
	switch l.kind {
	case skString:
		if op == 0 {
			return srcVal{kind: skString, s: l.s + r.str()}
		}
		if s11IsCmp(op) {
			return srcVal{kind: skBool, b: s11CmpStr(op, l.s, r.str())}
		}
		return srcVal{kind: skNumber, n: s11Arith(op, l.num(), r.n)}
	case skBool:
		switch op {
		case 11:
			return srcVal{kind: skBool, b: l.b && r.boolean()}
		case 12:
			return srcVal{kind: skBool, b: l.b || r.boolean()}
		case 5:
			return srcVal{kind: skBool, b: l.b == r.boolean()}
		case 6:
			return srcVal{kind: skBool, b: l.b != r.boolean()}
		}
		return srcVal{kind: skBool, b: s11CmpInt(op, l.num(), r.num())}
	}
	if s11IsCmp(op) {
		return srcVal{kind: skBool, b: s11CmpInt(op, l.n, r.num())}
	}
	return srcVal{kind: skNumber, n: s11Arith(op, l.n, r.num())}
}

// operand kinds: 0 string, 1 number parsed from text, 2 boolean, 3 matchLength (number)
func s11Operand(kind int, left bool, text string) (string, srcVal) {
	part, partSrc := "", ""
	if left {
		part, partSrc = text[0:1], "head match"
	} else {
		part, partSrc = text[1:], "tail match"
	}
	switch kind {
	case 0:
		return "(" + partSrc + ")", srcVal{kind: skString, s: part}
	case 1:
		return "(0 + " + partSrc + ")", srcVal{kind: skNumber, n: srcVal{kind: skString, s: part}.num()}
	case 2:
		lit := "a"
		if !left {
			lit = "b"
		}
		return "(" + partSrc + " == '" + lit + "')", srcVal{kind: skBool, b: part == lit}
	}
	return "matchLength", srcVal{kind: skNumber, n: len(text)}
}

func s11Run(expr string, want srcVal, text string) {
	var src string
	expected := ""
	switch want.kind {
	case skBool:
		src = "set f to transform if " + expr + " then return 'T' end return 'F' end replace all at least 1 any with f"
		expected = "F"
		if want.b {
			expected = "T"
		}
	default:
		src = "set f to transform return " + expr + " end replace all at least 1 any with f"
		expected = want.str()
	}
	vNote("source", src)
	vNote("text", text)
	v, err := Compile(src)
	if err != nil {
		// whether the checker accepts is C12's subject
		vReach("rejected")
		return
	}
	ms := v.Run(text)
	if len(ms) != 1 || ms[0].Value != text {
		vFail("harness: the whole text is not the single match")
	}
	got := ms[0].Replacement.GetValueOrDefault("")
	if got != expected {
		vNote("got", got)
		vNote("want", expected)
		vFail("C11: the value computed at run time differs from the documented table")
	}
	vReach("evaluated")
}

// VerifC11Src: L op R with symbolic operator, operand kinds lk, rk, text of 1..T symbolic ASCII bytes.
func VerifC11Src(lk int, rk int, T int) {
	n := 1 + vPick("len", T)
	b := make([]byte, n)
	for i := range b {
		b[i] = vByte("text")
		// digits, sign, two letters, blank: the characters on which parsing and comparisons differ
		vAssume((b[i] >= '0' && b[i] <= '9') || b[i] == '-' || b[i] == 'a' || b[i] == 'b' || b[i] == ' ')
	}
	text := string(b)
	op := vPick("operator", len(s11Ops))
	ls, lv := s11Operand(lk, true, text)
	rs, rv := s11Operand(rk, false, text)
	if (op == 3 || op == 4) && s11Type(op, lv.kind, rv.kind) == skNumber {
		vAssume(rv.num() != 0) // division by zero is C09's known finding
	}
	want := s11Bin(op, lv, rv)
	if want.kind == skErr {
		return
	}
	s11Run(ls+" "+s11Ops[op]+" "+rs, want, text)
}

// VerifC11SrcNested: (L op1 M) op2 R and L op1 (M op2 R) written with explicit parentheses, M = matchLength.
func VerifC11SrcNested(lk int, rk int, shape int) {
	// the operators are the symbolic part here; the text is one of a few representative strings
	texts := []string{"12", "-3", "a1", "0a", "a"}
	text := texts[vPick("text", len(texts))]
	op1 := vPick("operator1", len(s11Ops))
	op2 := vPick("operator2", len(s11Ops))
	ls, lv := s11Operand(lk, true, text)
	rs, rv := s11Operand(rk, false, text)
	ms, mv := s11Operand(3, true, text)
	var want srcVal
	var expr string
	// divisors are checked before anything is divided (division by zero is C09's known finding)
	divides := func(op int, l srcVal, r srcVal) bool {
		return (op == 3 || op == 4) && s11Type(op, l.kind, r.kind) == skNumber
	}
	if shape == 0 {
		if divides(op1, lv, mv) {
			vAssume(mv.num() != 0)
		}
		inner := s11Bin(op1, lv, mv)
		if inner.kind == skErr {
			return
		}
		if divides(op2, inner, rv) {
			vAssume(rv.num() != 0)
		}
		want = s11Bin(op2, inner, rv)
		expr = "(" + ls + " " + s11Ops[op1] + " " + ms + ") " + s11Ops[op2] + " " + rs
	} else {
		if divides(op2, mv, rv) {
			vAssume(rv.num() != 0)
		}
		inner := s11Bin(op2, mv, rv)
		if inner.kind == skErr {
			return
		}
		if divides(op1, lv, inner) {
			vAssume(inner.num() != 0)
		}
		want = s11Bin(op1, lv, inner)
		expr = ls + " " + s11Ops[op1] + " (" + ms + " " + s11Ops[op2] + " " + rs + ")"
	}
	if want.kind == skErr {
		return
	}
	s11Run(expr, want, text)
}
