package bytecode

import "github.com/jmeaster30/vore/libvore/ast"

// Exported shims (overlay only) so that harnesses outside this package can drive the real,
// unexported type checker.

func VCheckExpr(e ast.AstProcessExpression, env map[string]ProcessType) ProcessType {
	info := ProcessTypeInfo{currentType: PTOK, context: TRANSFORMATION, environment: env}
	return checkExpression(&e, info).currentType
}

// VCheckStatements runs the real statement checker the way generateSetTransform/generateSetPattern do.
func VCheckStatements(stmts []ast.AstProcessStatement, predicate bool) bool {
	env := make(map[string]ProcessType)
	env["match"] = PTSTRING
	env["matchLength"] = PTNUMBER
	ctx := TRANSFORMATION
	if predicate {
		ctx = PREDICATE
	}
	info := ProcessTypeInfo{currentType: PTOK, context: ctx, environment: env, inLoop: false}
	for _, stmt := range stmts {
		info = checkStatement(&stmt, info)
		if info.currentType == PTERROR {
			return false
		}
	}
	return true
}
