package libvore

// C14: a regex literal finds what that regular expression finds. The reference is a small
// conventional backtracking regex engine written from regex semantics (own parser, own matcher;
// groups numbered by opening parenthesis, leftmost alternative first, greedy longest first, lazy
// shortest first, ^ and $ as line anchors).

type reNode struct {
	kind    int // 0 lit, 1 class, 2 group, 3 concat, 4 repeat, 5 bol, 6 eol, 7 backref, 8 alt
	b       byte
	set     [128]bool
	neg     bool
	kids    []*reNode
	min     int
	max     int // -1 = unbounded
	lazy    bool
	cap     int    // capture index (0 = non-capturing)
	name    string // capture name
	refName string
}

type reParser struct {
	s      string
	pos    int
	ncap   int
	names  map[string]int
	failed bool
}

func (p *reParser) peek() byte {
	if p.pos < len(p.s) {
		return p.s[p.pos]
	}
	return 0
}

func (p *reParser) more() bool { return p.pos < len(p.s) }

func (p *reParser) parseAlt() *reNode {
	alts := []*reNode{p.parseConcat()}
	for p.more() && p.peek() == '|' {
		p.pos++
		alts = append(alts, p.parseConcat())
	}
	if len(alts) == 1 {
		return alts[0]
	}
	return &reNode{kind: 8, kids: alts}
}

func (p *reParser) parseConcat() *reNode {
	n := &reNode{kind: 3}
	for p.more() && p.peek() != '|' && p.peek() != ')' {
		n.kids = append(n.kids, p.parseRepeat())
	}
	return n
}

func (p *reParser) number() int {
	v := 0
	for p.more() && p.peek() >= '0' && p.peek() <= '9' {
		v = v*10 + int(p.peek()-'0')
		p.pos++
	}
	return v
}

func (p *reParser) parseRepeat() *reNode {
	atom := p.parseAtom()
	if !p.more() {
		return atom
	}
	min, max := -2, -2
	switch p.peek() {
	case '*':
		min, max = 0, -1
		p.pos++
	case '+':
		min, max = 1, -1
		p.pos++
	case '?':
		min, max = 0, 1
		p.pos++
	case '{':
		p.pos++
		min = p.number()
		max = min
		if p.peek() == ',' {
			p.pos++
			if p.peek() == '}' {
				max = -1
			} else {
				max = p.number()
			}
		}
		if p.peek() != '}' {
			p.failed = true
			return atom
		}
		p.pos++
	}
	if min == -2 {
		return atom
	}
	r := &reNode{kind: 4, min: min, max: max, kids: []*reNode{atom}}
	if p.more() && p.peek() == '?' {
		r.lazy = true
		p.pos++
	}
	return r
}

func reClass(spec string) *reNode {
	n := &reNode{kind: 1}
	for i := 0; i < len(spec); i++ {
		n.set[spec[i]] = true
	}
	return n
}

func (p *reParser) parseAtom() *reNode {
	c := p.peek()
	p.pos++
	switch c {
	case '.':
		n := &reNode{kind: 1, neg: true}
		n.set['\n'] = true
		return n
	case '^':
		return &reNode{kind: 5}
	case '$':
		return &reNode{kind: 6}
	case '[':
		n := &reNode{kind: 1}
		if p.peek() == '^' {
			n.neg = true
			p.pos++
		}
		for p.more() && p.peek() != ']' {
			lo := p.peek()
			p.pos++
			hi := lo
			if p.peek() == '-' && p.pos+1 < len(p.s) && p.s[p.pos+1] != ']' {
				hi = p.s[p.pos+1]
				p.pos += 2
			}
			for x := int(lo); x <= int(hi) && x < 128; x++ {
				n.set[x] = true
			}
		}
		if !p.more() {
			p.failed = true
			return n
		}
		p.pos++
		return n
	case '(':
		g := &reNode{kind: 2}
		if p.peek() == '?' {
			p.pos++
			if p.peek() == ':' {
				p.pos++
			} else if p.peek() == '<' {
				p.pos++
				name := ""
				for p.more() && p.peek() != '>' {
					name += string(p.peek())
					p.pos++
				}
				p.pos++
				p.ncap++
				g.cap = p.ncap
				g.name = name
				p.names[name] = g.cap
			} else {
				p.failed = true
			}
		} else {
			p.ncap++
			g.cap = p.ncap
		}
		g.kids = []*reNode{p.parseAlt()}
		if p.peek() != ')' {
			p.failed = true
			return g
		}
		p.pos++
		return g
	case '\\':
		e := p.peek()
		p.pos++
		switch {
		case e == 'd':
			return reClass("0123456789")
		case e == 'D':
			n := reClass("0123456789")
			n.neg = true
			return n
		case e == 's':
			return reClass(" \t\n\r")
		case e == 'S':
			n := reClass(" \t\n\r")
			n.neg = true
			return n
		case e >= '1' && e <= '9':
			return &reNode{kind: 7, cap: int(e - '0')}
		case e == 'k':
			p.pos++ // '<'
			name := ""
			for p.more() && p.peek() != '>' {
				name += string(p.peek())
				p.pos++
			}
			p.pos++
			return &reNode{kind: 7, refName: name}
		}
		return &reNode{kind: 0, b: e}
	}
	return &reNode{kind: 0, b: c}
}

type reCaps struct {
	idx        int
	start, end int
	prev       *reCaps
}

func (c *reCaps) get(i int) (int, int, bool) {
	for p := c; p != nil; p = p.prev {
		if p.idx == i {
			return p.start, p.end, true
		}
	}
	return 0, 0, false
}

type reMatcher struct {
	text   string
	names  map[string]int
	silent bool
}

type reRes struct {
	ok   bool
	end  int
	caps *reCaps
}

type reCont func(pos int, caps *reCaps) reRes

func (m *reMatcher) seq(kids []*reNode, i int, pos int, caps *reCaps, k reCont) reRes {
	if i == len(kids) {
		return k(pos, caps)
	}
	return m.node(kids[i], pos, caps, func(p int, c *reCaps) reRes { return m.seq(kids, i+1, p, c, k) })
}

func (m *reMatcher) rep(n *reNode, count int, pos int, caps *reCaps, k reCont) reRes {
	body := n.kids[0]
	if count < n.min {
		return m.node(body, pos, caps, func(p int, c *reCaps) reRes { return m.rep(n, count+1, p, c, k) })
	}
	iter := func() reRes {
		if n.max != -1 && count >= n.max {
			return reRes{}
		}
		return m.node(body, pos, caps, func(p int, c *reCaps) reRes {
			if p == pos {
				m.silent = true // a repeated body matched the empty string: outside the property's quantifier
				return reRes{}
			}
			return m.rep(n, count+1, p, c, k)
		})
	}
	if n.lazy {
		if r := k(pos, caps); r.ok {
			return r
		}
		return iter()
	}
	if r := iter(); r.ok {
		return r
	}
	return k(pos, caps)
}

func (m *reMatcher) node(n *reNode, pos int, caps *reCaps, k reCont) reRes {
	t := m.text
	switch n.kind {
	case 0:
		if pos < len(t) && t[pos] == n.b {
			return k(pos+1, caps)
		}
		return reRes{}
	case 1:
		if pos < len(t) && t[pos] < 128 && n.set[t[pos]] != n.neg {
			return k(pos+1, caps)
		}
		return reRes{}
	case 2:
		return m.node(n.kids[0], pos, caps, func(p int, c *reCaps) reRes {
			if n.cap != 0 {
				c = &reCaps{idx: n.cap, start: pos, end: p, prev: c}
			}
			return k(p, c)
		})
	case 3:
		return m.seq(n.kids, 0, pos, caps, k)
	case 4:
		return m.rep(n, 0, pos, caps, k)
	case 5:
		if pos == 0 || t[pos-1] == '\n' {
			return k(pos, caps)
		}
		return reRes{}
	case 6:
		if pos == len(t) || t[pos] == '\n' {
			return k(pos, caps)
		}
		return reRes{}
	case 7:
		idx := n.cap
		if n.refName != "" {
			idx = m.names[n.refName]
		}
		s, e, ok := caps.get(idx)
		if !ok || s == e {
			m.silent = true // unset / empty group reference: engines differ, statement silent
			return reRes{}
		}
		w := e - s
		if pos+w > len(t) {
			return reRes{}
		}
		for j := 0; j < w; j++ {
			if t[pos+j] != t[s+j] {
				return reRes{}
			}
		}
		return k(pos+w, caps)
	case 8:
		for _, a := range n.kids {
			if r := m.node(a, pos, caps, k); r.ok {
				return r
			}
		}
		return reRes{}
	}
	return reRes{}
}

type reSpan struct {
	start, end int
	caps       *reCaps
}

func reFindAll(re string, text string) ([]reSpan, *reParser, bool) {
	p := &reParser{s: re, names: map[string]int{}}
	root := p.parseAlt()
	if p.failed || p.more() {
		return nil, p, false
	}
	m := &reMatcher{text: text, names: p.names}
	var out []reSpan
	pos := 0
	for pos < len(text) {
		r := m.node(root, pos, nil, func(q int, c *reCaps) reRes { return reRes{ok: true, end: q, caps: c} })
		if r.ok && r.end > pos {
			out = append(out, reSpan{pos, r.end, r.caps})
			pos = r.end
		} else {
			pos++
		}
	}
	return out, p, !m.silent
}

var c14Regexes = []string{
	"a", "ab", ".", "a.", "[ab]", "[a-c]", "[^a]", "[^a-b]x", "\\d", "\\D", "\\s", "\\S", "a\\d", "a\\D", "a\\S", "a.",
	"a*b", "a+", "a?b", "a{2}", "a{1,}", "a{1,2}", "a{0,2}b", "a+?", "a*?b", "a??b", "a{1,2}?", "a{1,}?b", ".+", ".+?b", "[ab]+", "[^a]+", "\\d+", "\\d*a", "\\s+a",
	"(a)", "(ab)", "(a)b", "(?:a)b", "(?:ab)+", "(ab)+", "(a)+", "(?<n>a)b", "(a)(b)", "((a)b)", "(a(b))", "((a)(b))", "(?:(a)b)c",
	"a|b", "a|b|c", "(a|b)", "(a|b)c", "x(a|b)", "(ab)|(cd)", "(a)|(b)", "(?:a|b)+", "(a|b)+c", "(a+|b)c", "(?:a|(b))c", "(a|(?:bc))d", "(?:(?:ab)|c)+", "((?:a|b)c)+",
	"^a", "a$", "^a$", "^.", ".$", "^ab", "a+$", "^(a|b)", "(a|b)$",
	"(a+?)b", "(?:a+?)b", "(a??)b", "(a{1,2}?)b", "x(\\d*?)y", "(?:ab+?)+c", "(a*?)b", "((a+?)b)+", "(a|b+?)c", "(a+?|b)c", "(?<n>a+?)b\\k<n>",
	"(a)\\1", "(a|b)\\1", "(.)\\1", "(ab)\\1", "(a)(b)\\2\\1", "((a)b)\\1", "((a)b)\\2", "(a(b))\\2", "(?<n>a)\\k<n>", "(?<n>.)b\\k<n>", "(a+)b\\1", "(.)(.)\\2\\1", "(?:(a)|b)\\1c",
	// adjacent variable-length groups that can divide the same text in several ways, decided by a back-reference
	"(a+)(a*)b\\1", "(\\d+)(\\d*)-\\1", "(a*)(a+)-\\2", "(.+)(.*)-\\1", "(a|(?:ab))(c|(?:bc))\\1", "(a+?)(a*)b\\1", "(?<p>\\d+)(?<q>\\d*),\\k<p>",
	// a bounded quantifier inside a group that is itself under a bounded quantifier
	"(ab?)?", "(ab?)?c", "(a{1,2}b){1,2}", "(?:a?b){0,2}c", "(a??b)?", "(?:ab{0,2}){1,2}", "((a|b)?c)?",
}

func VerifC14Count() int { return len(c14Regexes) }

func VerifC14(i int, T int, twin int) {
	re := c14Regexes[i]
	src := "find all @/" + re + "/"
	vNote("source", src)
	v, err := Compile(src)
	if err != nil {
		vFail("a regex of the supported subset does not compile")
	}
	text := vText("text", 0, T, true)
	for j := 0; j < len(text); j++ {
		vAssume(text[j] != '\r' && text[j] != '\f' && text[j] != '\v')
	}
	vNote("text", text)
	want, p, ok := reFindAll(re, text)
	if p.failed {
		vFail("harness: reference parser rejects the regex")
	}
	vAssume(ok)
	got := v.Run(text)
	if twin != 0 {
		vFail("TWIN reached the comparison")
	}
	if len(got) != len(want) {
		vNote("got", vSpansStr(got))
		vFail("regex literal finds different match spans than a conventional backtracking engine")
	}
	for k := range got {
		if got[k].Offset.Start != want[k].start || got[k].Offset.End != want[k].end {
			vNote("got", vSpansStr(got))
			vFail("regex literal finds different match spans than a conventional backtracking engine")
		}
		// groups bind the same text
		for g := 1; g <= p.ncap; g++ {
			s, e, bound := want[k].caps.get(g)
			name := "_" + vItoa(g)
			for nm, idx := range p.names {
				if idx == g {
					name = nm
				}
			}
			val, found := got[k].Variables.Get(name)
			if bound {
				if !found {
					// named groups are not numbered by vore; numbered lookup only applies to unnamed groups
					vNote("group", name)
					vFail("a group that took part in the match is not bound")
				}
				if val.String().Value != text[s:e] {
					vNote("group", name)
					vNote("gotvalue", val.String().Value)
					vNote("wantvalue", text[s:e])
					vFail("a group is bound to different text than in a conventional engine")
				}
			}
		}
	}
}
