package PKG

// Small JSON parser used by the C17/C18 harnesses to decode what the code under test rendered.

type jv struct {
	kind int // 0 null, 1 bool, 2 number, 3 string, 4 array, 5 object
	b    bool
	n    int
	s    string
	arr  []*jv
	keys []string
	vals []*jv
}

type jparser struct {
	s   string
	pos int
	bad bool
}

func (p *jparser) ws() {
	for p.pos < len(p.s) && (p.s[p.pos] == ' ' || p.s[p.pos] == '\n' || p.s[p.pos] == '\t' || p.s[p.pos] == '\r') {
		p.pos++
	}
}

func (p *jparser) hex(c byte) int {
	switch {
	case c >= '0' && c <= '9':
		return int(c - '0')
	case c >= 'a' && c <= 'f':
		return int(c-'a') + 10
	case c >= 'A' && c <= 'F':
		return int(c-'A') + 10
	}
	p.bad = true
	return 0
}

func (p *jparser) str() string {
	out := []byte{}
	p.pos++ // opening quote
	for {
		if p.pos >= len(p.s) {
			p.bad = true
			return ""
		}
		c := p.s[p.pos]
		p.pos++
		if c == '"' {
			return string(out)
		}
		if c < 0x20 {
			p.bad = true // control characters must be escaped
			return ""
		}
		if c != '\\' {
			out = append(out, c)
			continue
		}
		if p.pos >= len(p.s) {
			p.bad = true
			return ""
		}
		e := p.s[p.pos]
		p.pos++
		switch e {
		case '"', '\\', '/':
			out = append(out, e)
		case 'n':
			out = append(out, '\n')
		case 'r':
			out = append(out, '\r')
		case 't':
			out = append(out, '\t')
		case 'b':
			out = append(out, 8)
		case 'f':
			out = append(out, 12)
		case 'u':
			if p.pos+4 > len(p.s) {
				p.bad = true
				return ""
			}
			v := p.hex(p.s[p.pos])<<12 | p.hex(p.s[p.pos+1])<<8 | p.hex(p.s[p.pos+2])<<4 | p.hex(p.s[p.pos+3])
			p.pos += 4
			if v >= 0x80 {
				p.bad = true // outside the ASCII texts of this harness
				return ""
			}
			out = append(out, byte(v))
		default:
			p.bad = true
			return ""
		}
	}
}

func (p *jparser) value() *jv {
	p.ws()
	if p.pos >= len(p.s) {
		p.bad = true
		return &jv{}
	}
	c := p.s[p.pos]
	switch {
	case c == '"':
		return &jv{kind: 3, s: p.str()}
	case c == '{':
		p.pos++
		o := &jv{kind: 5}
		p.ws()
		if p.pos < len(p.s) && p.s[p.pos] == '}' {
			p.pos++
			return o
		}
		for {
			p.ws()
			if p.pos >= len(p.s) || p.s[p.pos] != '"' {
				p.bad = true
				return o
			}
			k := p.str()
			p.ws()
			if p.pos >= len(p.s) || p.s[p.pos] != ':' {
				p.bad = true
				return o
			}
			p.pos++
			v := p.value()
			o.keys = append(o.keys, k)
			o.vals = append(o.vals, v)
			p.ws()
			if p.bad || p.pos >= len(p.s) {
				p.bad = true
				return o
			}
			if p.s[p.pos] == ',' {
				p.pos++
				continue
			}
			if p.s[p.pos] == '}' {
				p.pos++
				return o
			}
			p.bad = true
			return o
		}
	case c == '[':
		p.pos++
		a := &jv{kind: 4}
		p.ws()
		if p.pos < len(p.s) && p.s[p.pos] == ']' {
			p.pos++
			return a
		}
		for {
			a.arr = append(a.arr, p.value())
			p.ws()
			if p.bad || p.pos >= len(p.s) {
				p.bad = true
				return a
			}
			if p.s[p.pos] == ',' {
				p.pos++
				continue
			}
			if p.s[p.pos] == ']' {
				p.pos++
				return a
			}
			p.bad = true
			return a
		}
	case c == '-' || (c >= '0' && c <= '9'):
		neg := false
		if c == '-' {
			neg = true
			p.pos++
		}
		n := 0
		digits := 0
		for p.pos < len(p.s) && p.s[p.pos] >= '0' && p.s[p.pos] <= '9' {
			n = n*10 + int(p.s[p.pos]-'0')
			p.pos++
			digits++
		}
		if digits == 0 {
			p.bad = true
		}
		if neg {
			n = -n
		}
		return &jv{kind: 2, n: n}
	}
	for _, w := range []string{"true", "false", "null"} {
		if p.pos+len(w) <= len(p.s) && p.s[p.pos:p.pos+len(w)] == w {
			p.pos += len(w)
			switch w {
			case "true":
				return &jv{kind: 1, b: true}
			case "false":
				return &jv{kind: 1}
			}
			return &jv{}
		}
	}
	p.bad = true
	return &jv{}
}

func jparse(s string) (*jv, bool) {
	p := &jparser{s: s}
	v := p.value()
	p.ws()
	return v, !p.bad && p.pos == len(s)
}

func (v *jv) get(k string) *jv {
	for i, kk := range v.keys {
		if kk == k {
			return v.vals[i]
		}
	}
	return nil
}

func jequal(a *jv, b *jv) bool {
	if a.kind != b.kind {
		return false
	}
	switch a.kind {
	case 1:
		return a.b == b.b
	case 2:
		return a.n == b.n
	case 3:
		return a.s == b.s
	case 4:
		if len(a.arr) != len(b.arr) {
			return false
		}
		for i := range a.arr {
			if !jequal(a.arr[i], b.arr[i]) {
				return false
			}
		}
	case 5:
		if len(a.keys) != len(b.keys) {
			return false
		}
		for i, k := range a.keys {
			o := b.get(k)
			if o == nil || !jequal(a.vals[i], o) {
				return false
			}
		}
	}
	return true
}
