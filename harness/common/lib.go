package libvore

// Shared harness helpers for package libvore: symbolic inputs, front-end drivers and the
// reference matcher (refmatch, DESIGN §4.2) that interprets the *real* exported AST types with
// the natural backtracking semantics. Everything here is ordinary Go: gosym executes it
// symbolically next to the real implementation; natively it replays counterexamples.

import (
	"strings"

	"github.com/jmeaster30/vore/libvore/ast"
	"github.com/jmeaster30/vore/libvore/bytecode"
	"github.com/jmeaster30/vore/libvore/engine"
)

// vText returns a symbolic text of length 0..maxLen (the length is case-split).
func vText(label string, minLen int, maxLen int, ascii bool) string {
	n := minLen + vPick(label+".len", maxLen-minLen+1)
	return vTextN(label, n, ascii)
}

func vTextN(label string, n int, ascii bool) string {
	b := make([]byte, n)
	for i := range b {
		b[i] = vByte(label)
		if ascii {
			vAssume(b[i] < 0x80)
		}
	}
	return string(b)
}

func vParse(src string) *ast.Ast {
	a, err := ast.ParseReader(strings.NewReader(src))
	if err != nil {
		vFail("harness: source does not parse: " + src)
	}
	return a
}

func vGen(a *ast.Ast) *bytecode.Bytecode {
	bc, err := bytecode.GenerateBytecode(a)
	if err != nil {
		vFail("harness: bytecode generation failed")
	}
	return bc
}

// ---- making literal bytes symbolic ----

type symOpts struct {
	lits     bool // literal bytes symbolic (ASCII, printable)
	maxBytes int  // stop after this many symbolic literal bytes
	used     int
}

func (o *symOpts) symString(s *ast.AstString) {
	if !o.lits || len(s.Value) == 0 {
		return
	}
	b := []byte(s.Value)
	for i := range b {
		if o.used >= o.maxBytes {
			break
		}
		c := vByte("lit")
		vAssume(c >= 0x20 && c < 0x7f)
		b[i] = c
		o.used++
	}
	s.Value = string(b)
	vNote("lit"+vItoa(o.used), s.Value)
}

func (o *symOpts) symExprs(es []ast.AstExpression) {
	for _, e := range es {
		o.symExpr(e)
	}
}

func (o *symOpts) symExpr(e ast.AstExpression) {
	switch x := e.(type) {
	case *ast.AstLoop:
		o.symExpr(x.Body)
	case *ast.AstBranch:
		o.symLiteral(x.Left)
		o.symExpr(x.Right)
	case *ast.AstDec:
		o.symLiteral(x.Body)
	case *ast.AstSub:
		o.symExprs(x.Body)
	case *ast.AstList:
		for _, c := range x.Contents {
			switch y := c.(type) {
			case *ast.AstString:
				o.symString(y)
			case *ast.AstRange:
				// keep range end points concrete: an inverted range is a different program
			}
		}
	case *ast.AstPrimary:
		o.symLiteral(x.Literal)
	}
}

func (o *symOpts) symLiteral(l ast.AstLiteral) {
	switch x := l.(type) {
	case *ast.AstString:
		o.symString(x)
	case *ast.AstSubExpr:
		o.symExprs(x.Body)
	}
}

func vSymboliseLiterals(a *ast.Ast, maxBytes int) {
	o := &symOpts{lits: true, maxBytes: maxBytes}
	for _, c := range a.Commands() {
		switch x := c.(type) {
		case *ast.AstFind:
			o.symExprs(x.Body)
		case *ast.AstReplace:
			o.symExprs(x.Body)
		case *ast.AstSet:
			if p, ok := x.Body.(*ast.AstSetPattern); ok {
				o.symExprs(p.Pattern)
			}
		}
	}
}

// ---- reference matcher ----

type refEnv struct {
	name       string
	start, end int
	prev       *refEnv
}

func (e *refEnv) lookup(name string) (int, int, bool) {
	for p := e; p != nil; p = p.prev {
		if p.name == name {
			return p.start, p.end, true
		}
	}
	return 0, 0, false
}

type refRes struct {
	ok  bool
	end int
	env *refEnv
}

type refCont func(pos int, env *refEnv) refRes

type refMatcher struct {
	text    string
	subs    map[string][]ast.AstExpression // inline subroutines of the current command
	decs    map[string]bool                // capture names of the current command
	globals map[string]*ast.AstSetPattern
	pred    func(p *ast.AstSetPattern, sub string) bool
	steps   int
	// unsupported marks constructs on which the property is silent; the harness assumes them away
	silent bool
}

func refIsWord(c byte) bool {
	return (c >= 'a' && c <= 'z') || (c >= 'A' && c <= 'Z') || (c >= '0' && c <= '9') || c == '_'
}

func refFold(c byte) byte {
	if c >= 'A' && c <= 'Z' {
		return c + 32
	}
	return c
}

func (m *refMatcher) collect(es []ast.AstExpression) {
	for _, e := range es {
		m.collectExpr(e)
	}
}

func (m *refMatcher) collectExpr(e ast.AstExpression) {
	switch x := e.(type) {
	case *ast.AstLoop:
		m.collectExpr(x.Body)
	case *ast.AstBranch:
		m.collectLit(x.Left)
		m.collectExpr(x.Right)
	case *ast.AstDec:
		m.decs[x.Name] = true
		m.collectLit(x.Body)
	case *ast.AstSub:
		m.subs[x.Name] = x.Body
		m.collect(x.Body)
	case *ast.AstPrimary:
		m.collectLit(x.Literal)
	}
}

func (m *refMatcher) collectLit(l ast.AstLiteral) {
	if s, ok := l.(*ast.AstSubExpr); ok {
		m.collect(s.Body)
	}
}

func (m *refMatcher) seq(es []ast.AstExpression, i int, pos int, env *refEnv, k refCont) refRes {
	if i == len(es) {
		return k(pos, env)
	}
	return m.expr(es[i], pos, env, func(p int, e *refEnv) refRes {
		return m.seq(es, i+1, p, e, k)
	})
}

func (m *refMatcher) expr(e ast.AstExpression, pos int, env *refEnv, k refCont) refRes {
	switch x := e.(type) {
	case *ast.AstPrimary:
		return m.lit(x.Literal, pos, env, k)
	case *ast.AstBranch:
		r := m.lit(x.Left, pos, env, k)
		if r.ok {
			return r
		}
		return m.expr(x.Right, pos, env, k)
	case *ast.AstDec:
		return m.lit(x.Body, pos, env, func(p int, e2 *refEnv) refRes {
			return k(p, &refEnv{name: x.Name, start: pos, end: p, prev: e2})
		})
	case *ast.AstSub:
		return m.seq(x.Body, 0, pos, env, k)
	case *ast.AstLoop:
		if x.Name != "" {
			m.silent = true
		}
		return m.loop(x, 0, pos, env, k)
	case *ast.AstList:
		return m.list(x, pos, env, k)
	}
	m.silent = true
	return refRes{}
}

func (m *refMatcher) loop(l *ast.AstLoop, i int, pos int, env *refEnv, k refCont) refRes {
	if i < l.Min {
		return m.expr(l.Body, pos, env, func(p int, e *refEnv) refRes {
			return m.loop(l, i+1, p, e, k)
		})
	}
	canIter := l.Max == -1 || i < l.Max
	iter := func() refRes {
		if !canIter {
			return refRes{}
		}
		return m.expr(l.Body, pos, env, func(p int, e *refEnv) refRes {
			if p == pos {
				return refRes{} // an iteration that consumed nothing is a failed iteration
			}
			return m.loop(l, i+1, p, e, k)
		})
	}
	if l.Fewest {
		r := k(pos, env)
		if r.ok {
			return r
		}
		return iter()
	}
	r := iter()
	if r.ok {
		return r
	}
	return k(pos, env)
}

func (m *refMatcher) strAt(s *ast.AstString, pos int) (matched bool, width int, fits bool) {
	w := len(s.Value)
	if pos+w > len(m.text) {
		return false, w, false
	}
	eq := true
	for j := 0; j < w; j++ {
		a, b := m.text[pos+j], s.Value[j]
		if s.Caseless {
			a, b = refFold(a), refFold(b)
		}
		if a != b {
			eq = false
		}
	}
	return eq, w, true
}

func (m *refMatcher) classByte(t ast.AstCharacterClassType, c byte) bool {
	switch t {
	case ast.ClassAny:
		return true
	case ast.ClassWhitespace:
		return c == ' ' || c == '\t' || c == '\n' || c == '\r'
	case ast.ClassDigit:
		return c >= '0' && c <= '9'
	case ast.ClassUpper:
		return c >= 'A' && c <= 'Z'
	case ast.ClassLower:
		return c >= 'a' && c <= 'z'
	case ast.ClassLetter:
		return (c >= 'a' && c <= 'z') || (c >= 'A' && c <= 'Z')
	}
	return false
}

// anchor evaluates the zero-width classes; ok=false for classes that are not anchors.
func (m *refMatcher) anchor(t ast.AstCharacterClassType, pos int) (holds bool, ok bool) {
	n := len(m.text)
	switch t {
	case ast.ClassFileStart:
		return pos == 0, true
	case ast.ClassFileEnd:
		return pos == n, true
	case ast.ClassLineStart:
		return pos == 0 || m.text[pos-1] == '\n', true
	case ast.ClassLineEnd:
		return pos == n || m.text[pos] == '\n' || (pos+1 < n && m.text[pos] == '\r' && m.text[pos+1] == '\n'), true
	case ast.ClassWordStart:
		return pos < n && refIsWord(m.text[pos]) && (pos == 0 || !refIsWord(m.text[pos-1])), true
	case ast.ClassWordEnd:
		return pos > 0 && refIsWord(m.text[pos-1]) && (pos == n || !refIsWord(m.text[pos])), true
	}
	return false, false
}

func (m *refMatcher) lit(l ast.AstLiteral, pos int, env *refEnv, k refCont) refRes {
	switch x := l.(type) {
	case *ast.AstString:
		if len(x.Value) == 0 {
			m.silent = true
			return refRes{}
		}
		eq, w, fits := m.strAt(x, pos)
		if !fits {
			return refRes{}
		}
		if eq != x.Not {
			return k(pos+w, env)
		}
		return refRes{}
	case *ast.AstSubExpr:
		return m.seq(x.Body, 0, pos, env, k)
	case *ast.AstCharacterClass:
		if holds, ok := m.anchor(x.ClassType, pos); ok {
			if holds != x.Not {
				return k(pos, env)
			}
			return refRes{}
		}
		switch x.ClassType {
		case ast.ClassWholeFile, ast.ClassWholeLine, ast.ClassWholeWord:
			m.silent = true
			return refRes{}
		}
		if pos >= len(m.text) {
			return refRes{}
		}
		if x.ClassType == ast.ClassAny && x.Not {
			return refRes{}
		}
		if m.classByte(x.ClassType, m.text[pos]) != x.Not {
			return k(pos+1, env)
		}
		return refRes{}
	case *ast.AstVariable:
		if m.decs[x.Name] {
			s, e, found := env.lookup(x.Name)
			if !found || s == e {
				// unbound or empty back-reference: the property statement is silent / the
				// implementation is known to differ; the harness decides what to do
				m.silent = true
				return refRes{}
			}
			w := e - s
			if pos+w > len(m.text) {
				return refRes{}
			}
			for j := 0; j < w; j++ {
				if m.text[pos+j] != m.text[s+j] {
					return refRes{}
				}
			}
			return k(pos+w, env)
		}
		if body, ok := m.subs[x.Name]; ok {
			m.steps++
			if m.steps > 200 {
				m.silent = true
				return refRes{}
			}
			return m.seq(body, 0, pos, env, k)
		}
		if g, ok := m.globals[x.Name]; ok {
			return m.seq(g.Pattern, 0, pos, env, func(p int, e *refEnv) refRes {
				if len(g.Body) > 0 {
					if m.pred == nil {
						m.silent = true
						return refRes{}
					}
					if !m.pred(g, m.text[pos:p]) {
						return refRes{}
					}
				}
				return k(p, e)
			})
		}
	}
	m.silent = true
	return refRes{}
}

func (m *refMatcher) listable(c ast.AstListable, pos int) (matched bool, width int) {
	switch y := c.(type) {
	case *ast.AstString:
		if len(y.Value) == 0 {
			m.silent = true
			return false, 0
		}
		eq, w, fits := m.strAt(y, pos)
		return fits && eq, w
	case *ast.AstCharacterClass:
		if pos >= len(m.text) {
			return false, 1
		}
		return m.classByte(y.ClassType, m.text[pos]), 1
	case *ast.AstRange:
		if len(y.From.Value) != 1 || len(y.To.Value) != 1 {
			m.silent = true
			return false, 0
		}
		if pos >= len(m.text) {
			return false, 1
		}
		return m.text[pos] >= y.From.Value[0] && m.text[pos] <= y.To.Value[0], 1
	}
	m.silent = true
	return false, 0
}

func (m *refMatcher) list(l *ast.AstList, pos int, env *refEnv, k refCont) refRes {
	if !l.Not {
		for _, c := range l.Contents {
			ok, w := m.listable(c, pos)
			if ok {
				r := k(pos+w, env)
				if r.ok {
					return r
				}
			}
		}
		return refRes{}
	}
	maxw := 0
	for _, c := range l.Contents {
		ok, w := m.listable(c, pos)
		if ok {
			return refRes{}
		}
		if w > maxw {
			maxw = w
		}
	}
	if maxw == 0 || pos+maxw > len(m.text) {
		return refRes{}
	}
	return k(pos+maxw, env)
}

type refSpan struct {
	start, end int
	env        *refEnv
}

// refFind scans the text the way the property statement describes.
func (m *refMatcher) find(body []ast.AstExpression) []refSpan {
	m.subs = map[string][]ast.AstExpression{}
	m.decs = map[string]bool{}
	m.collect(body)
	var out []refSpan
	pos := 0
	n := len(m.text)
	for pos < n {
		r := m.seq(body, 0, pos, nil, func(p int, e *refEnv) refRes { return refRes{ok: true, end: p, env: e} })
		if r.ok && r.end > pos {
			out = append(out, refSpan{pos, r.end, r.env})
			pos = r.end
		} else {
			pos++
		}
	}
	return out
}

func newRefMatcher(a *ast.Ast, text string) *refMatcher {
	m := &refMatcher{text: text, globals: map[string]*ast.AstSetPattern{}}
	for _, c := range a.Commands() {
		if s, ok := c.(*ast.AstSet); ok {
			if p, ok := s.Body.(*ast.AstSetPattern); ok {
				m.globals[s.Id] = p
			}
		}
	}
	return m
}

func vSpansEqual(ms engine.Matches, rs []refSpan) bool {
	if len(ms) != len(rs) {
		return false
	}
	for i := range ms {
		if ms[i].Offset.Start != rs[i].start || ms[i].Offset.End != rs[i].end {
			return false
		}
	}
	return true
}

func vItoa(n int) string {
	if n == 0 {
		return "0"
	}
	neg := n < 0
	if neg {
		n = -n
	}
	s := ""
	for n > 0 {
		s = string(rune('0'+n%10)) + s
		n /= 10
	}
	if neg {
		s = "-" + s
	}
	return s
}

func vSpansStr(ms engine.Matches) string {
	s := ""
	for _, m := range ms {
		s += "[" + vItoa(m.Offset.Start) + "," + vItoa(m.Offset.End) + ")"
	}
	return s
}

func vRefSpansStr(rs []refSpan) string {
	s := ""
	for _, m := range rs {
		s += "[" + vItoa(m.start) + "," + vItoa(m.end) + ")"
	}
	return s
}

func lastCommandBody(a *ast.Ast) []ast.AstExpression {
	cs := a.Commands()
	for i := len(cs) - 1; i >= 0; i-- {
		switch x := cs[i].(type) {
		case *ast.AstFind:
			return x.Body
		case *ast.AstReplace:
			return x.Body
		}
	}
	return nil
}
