package libvore

// `in` lists: the options are alternatives in textual order ("earlier alternative first"), whatever their
// widths. Every ordered selection of three options from single-byte strings, multi-byte strings that start
// with one of them, and a range, alone / under a loop / followed by text that forces the choice.

var c01ListItems = []string{"'a'", "'b'", "'bc'", "'ab'", "'a' to 'b'"}
var c01ListContexts = []string{"find all in %", "find all (in %) 'c'", "find all at least 1 (in %)", "find all (in %) = x x"}

func VerifC01ListsCount() int {
	n := len(c01ListItems)
	return n * (n - 1) * (n - 2) * len(c01ListContexts)
}

func VerifC01Lists(job int, T int) {
	n := len(c01ListItems)
	ctx := c01ListContexts[job%len(c01ListContexts)]
	k := job / len(c01ListContexts)
	// unrank the k-th ordered triple of distinct items
	i0 := k / ((n - 1) * (n - 2))
	r := k % ((n - 1) * (n - 2))
	i1 := r / (n - 2)
	i2 := r % (n - 2)
	rest := []int{}
	for j := 0; j < n; j++ {
		if j != i0 {
			rest = append(rest, j)
		}
	}
	a1 := rest[i1]
	rest2 := []int{}
	for _, j := range rest {
		if j != a1 {
			rest2 = append(rest2, j)
		}
	}
	a2 := rest2[i2]
	list := c01ListItems[i0] + ", " + c01ListItems[a1] + ", " + c01ListItems[a2]
	src := c01Sub(ctx, list)
	a := vParse(src)
	text := vText("text", 0, T, true)
	vNote("source", src)
	vNote("text", text)
	c01Compare(a, text, 0)
}
