package libvore

import (
	"github.com/jmeaster30/vore/libvore/ast"
	"github.com/jmeaster30/vore/libvore/engine"
)

// C01: find results equal the backtracking semantics of the pattern as written.

var c01Atoms = []string{
	"'a'", "'ab'", "not 'a'", "not 'ab'", "caseless 'a'", "caseless 'ab'",
	"any", "whitespace", "digit", "upper", "lower", "letter",
	"not whitespace", "not digit", "not upper", "not lower", "not letter",
	"in 'a', 'b'", "in 'a' to 'c'", "in 'a', digit", "in 'ab', 'c'", "in 'a', 'ab'", "in caseless 'a', 'b'",
	"not in 'a', 'b'", "not in 'a' to 'c', 'x'", "not in 'ab', 'c'", "not in digit, 'a'",
	"file start 'a'", "'a' file end", "not file start 'a'", "'a' not file end",
	"line start 'a'", "'a' line end", "not line start 'a'", "'a' not line end",
	"word start 'a'", "'a' word end", "not word start any", "any not word end",
	"word start any", "any word end", "any line end", "line start any",
	"any word start", "any not word start", "any not line end", "any file end", "any not file end", "any line start any", "any word start any", "any word end any",
	"'a' not digit", "'a' not letter", "'a' not upper", "'a' not lower", "'a' not whitespace", "'a' not 'b'", "'a' not in 'b'", "'a' not in digit", "'a' any", "'a' digit",
	"'a' not 'bc'", "'a' in 'b', 'cd'", "'a' not in 'b', 'cd'", "'a' caseless 'bc'",
}

var c01Combs = []string{
	"maybe 'a' 'b'", "maybe 'a' fewest 'b'", "'a' maybe 'b'", "'a' maybe 'b' fewest",
	"at least 0 'a' 'b'", "at least 1 'a'", "at least 1 'a' fewest", "at least 1 'a' fewest 'b'", "at least 2 'a'",
	"at most 2 'a'", "at most 2 'a' fewest", "at most 2 'a' fewest 'b'", "at most 0 'a' 'b'",
	"between 1 and 2 'a'", "between 1 and 2 'a' fewest", "between 1 and 3 'a' 'a'", "between 0 and 2 'a' fewest 'b'",
	"exactly 2 'a'", "exactly 1 'a' 'b'", "exactly 2 ('a' or 'b')",
	"'a' or 'b'", "'a' or 'b' or 'c'", "'ab' or 'a'", "'a' or 'ab'", "('a' 'b') or 'c'", "('a' or 'ab') 'c'", "('a' or 'ab') ('c' or 'bc')",
	"at least 1 any", "at least 1 any fewest 'a'", "at least 0 any 'a'", "at least 1 digit", "at least 1 not 'a'", "at least 1 letter 'a'",
	"at least 1 ('a' or 'b')", "at least 1 ('ab' or 'a')", "at least 1 ('a' or 'ab') 'b'", "maybe ('a' 'b') 'a'",
	"at least 1 (maybe 'a' 'b')", "at least 1 at least 1 'a'", "at least 1 (at least 1 'a' 'b')", "at least 1 (at least 1 'a' fewest 'b')",
	"at least 0 maybe 'a' 'b'", "at least 1 (maybe 'a') 'b'", "at least 1 in 'a', 'b'", "at least 1 not in 'a', 'b'", "at least 1 not in 'a' fewest 'b'",
	"'a' = x", "'a' = x x", "('a' or 'b') = x x", "(at least 1 'a') = x 'b' x", "any = x any = y x y", "(any any) = x x",
	"{'a'} = s", "{'a'} = s s", "{'a' or 'b'} = s s", "{'a' maybe s 'b'} = s", "{'a' maybe s 'b'} = s 'c'", "{at least 1 'a'} = s 'b' s",
	"{'a' (s or 'b')} = s", "{'a' at most 1 s} = s s",
	// bounded loops nested in bounded loops and re-entered through subroutines: a loop that ends exactly at
	// its maximum must leave the loop bookkeeping of the enclosing / next activation intact
	"at most 2 maybe 'a'", "at most 2 (maybe 'a' 'b')", "between 1 and 2 at most 1 'a'", "at most 1 (at most 1 'a' 'b') 'b'", "exactly 2 maybe 'a' 'b'",
	"between 1 and 2 (between 1 and 2 'a')", "at most 2 (at most 2 'a' fewest 'b')", "at most 2 (between 1 and 2 'a' 'b')", "{maybe 'a' 'b'} = s s", "{at most 1 'a' 'b'} = s s s",
	"at most 2 {maybe 'a' 'b'} = s", "maybe (maybe 'a' 'b') 'a'", "at most 2 (at most 2 (maybe 'a') 'b')",
}

var c01Globals = []string{
	"set p to pattern 'a' find all p", "set p to pattern 'a' find all p p", "set p to pattern 'a' or 'b' find all p 'c' p",
	"set p to pattern at least 1 'a' find all p 'b'", "set p to pattern 'a' 'b' find all 'c' p", "set p to pattern 'a' 'b' find all maybe p 'c'",
	"set p to pattern in 'a', 'b' find all 'c' p", "set p to pattern not in 'a', 'b' find all 'c' p",
	"set p to pattern 'a' set q to pattern p 'b' find all q", "set p to pattern {'a' maybe q 'b'} = q 'd' find all p",
	"set p to pattern 'a' find all at least 1 p", "set p to pattern 'a' or 'b' find all at least 1 p 'c'",
	"set p to pattern 'a' find all ('b' or p) p", "set p to pattern maybe 'a' 'b' find all 'c' p p",
	"set p to pattern at least 1 'a' fewest 'b' find all 'c' p",
}

func c01Shape(i int) string {
	if i < len(c01Atoms) {
		return "find all " + c01Atoms[i]
	}
	i -= len(c01Atoms)
	if i < len(c01Combs) {
		return "find all " + c01Combs[i]
	}
	i -= len(c01Combs)
	return c01Globals[i]
}

func VerifC01Count() int { return len(c01Atoms) + len(c01Combs) + len(c01Globals) }

// VerifC01 compares the real pipeline (parse -> generate -> VM) with refmatch on one shape.
// symLits: number of literal bytes made symbolic; T: max text length; twin!=0: vacuity twin.
func VerifC01(shape int, T int, symLits int, twin int) {
	src := c01Shape(shape)
	a := vParse(src)
	if symLits > 0 {
		vSymboliseLiterals(a, symLits)
	}
	text := vText("text", 0, T, true)
	vNote("source", src)
	vNote("text", text)
	c01Compare(a, text, twin)
}

func c01Compare(a *ast.Ast, text string, twin int) {
	ref := newRefMatcher(a, text)
	want := ref.find(lastCommandBody(a))
	vAssume(!ref.silent)
	bc := vGen(a)
	var got engine.Matches = engine.Run(bc, text)
	vReach("compared")
	if twin != 0 {
		vFail("TWIN reached the comparison")
	}
	if !vSpansEqual(got, want) {
		vNote("got", vSpansStr(got))
		vNote("want", vRefSpansStr(want))
		vFail("spans differ from the reference backtracking semantics")
	}
}

// ---- generated family F2: every quantifier form over every quantifier form, in five structural positions ----
// (hand-picked lists miss combinations; this family is enumerated systematically)

var c01Wrap = []string{"maybe %", "maybe % fewest", "at least 0 %", "at least 1 %", "at least 1 % fewest", "at most 2 %", "at most 2 % fewest", "between 1 and 2 %", "exactly 2 %", "at least 2 %"}

var c01Pos = []string{
	"find all %1 'b'",                      // Q1(Q2('a')) 'b'            (%1 = Q1 over Q2 over 'a')
	"find all %2",                          // Q1((Q2('a') 'b'))
	"find all %3 'c'",                      // Q1(('a' or (Q2('b')))) 'c'
	"find all %4",                          // Q1('a') Q2('a')
	"find all %5",                          // Q1(('a' = x)) Q2(x)   — captures and back-references under quantifiers
	"find all {%6} = s s",                  // {Q1('a') Q2('b')} = s s
	"set p to pattern %6 find all p 'c' p", // the same body as a global pattern, referenced twice
	"find all {%7} = s %8",                 // {'a' Q2('b')} = s  Q1((',' s)) : a call inside every loop form
	"set p to pattern %7 find all p %9",    // the same through a global pattern referenced before and inside the loop
}

func VerifC01GenCount() int { return len(c01Pos) * len(c01Wrap) * len(c01Wrap) }

func c01Sub(tmpl string, x string) string {
	s := ""
	for i := 0; i < len(tmpl); i++ {
		if tmpl[i] == '%' {
			s += x
		} else {
			s += string(tmpl[i])
		}
	}
	return s
}

func c01GenSource(i int) string {
	nw := len(c01Wrap)
	q2 := c01Wrap[i%nw]
	q1 := c01Wrap[(i/nw)%nw]
	pos := c01Pos[i/(nw*nw)]
	var body string
	switch i / (nw * nw) {
	case 0:
		body = c01Sub(q1, "("+c01Sub(q2, "'a'")+")")
	case 1:
		body = c01Sub(q1, "("+c01Sub(q2, "'a'")+" 'b')")
	case 2:
		body = c01Sub(q1, "('a' or ("+c01Sub(q2, "'b'")+"))")
	case 3:
		body = c01Sub(q1, "'a'") + " " + c01Sub(q2, "'a'")
	case 4:
		body = c01Sub(q1, "('a' = x)") + " " + c01Sub(q2, "x")
	case 5, 6:
		body = c01Sub(q1, "'a'") + " " + c01Sub(q2, "'b'")
	}
	s := ""
	for j := 0; j < len(pos); j++ {
		if pos[j] == '%' {
			switch pos[j+1] {
			case '7':
				s += "'a' " + c01Sub(q2, "'b'")
			case '8':
				s += c01Sub(q1, "(',' s)")
			case '9':
				s += c01Sub(q1, "(',' p)")
			default:
				s += body
			}
			j++ // skip the digit
		} else {
			s += string(pos[j])
		}
	}
	return s
}

func VerifC01Gen(i int, T int, symLits int) {
	src := c01GenSource(i)
	a := vParse(src)
	if symLits > 0 {
		vSymboliseLiterals(a, symLits)
	}
	text := vText("text", 0, T, true)
	vNote("source", src)
	vNote("text", text)
	c01Compare(a, text, 0)
}
