package libvore

import (
	"github.com/jmeaster30/vore/libvore/engine"
)

// C01 on long inputs. The reference matcher is recursive in the text length, so these programs are
// chosen such that the leftmost-first semantics gives a closed-form answer for the text family  u^k t :
// the number of repetitions k is symbolic over windows around the powers of two (where stacks, queues and
// slices of the VM grow or compact), everything else is concrete. What is exercised is the VM's
// bookkeeping at depth: k saved backtracking states, k loop iterations, k nested calls, a capture of k bytes.

type c01LongCase struct {
	src  string
	unit string
	tail func(k int) string
	// expected matches as (start, end) pairs in units of bytes, given k
	want func(k int) [][2]int
	varx func(k int) (string, bool) // expected value of variable x in the first match, if any
}

func c01Rep(u string, k int) string {
	s := ""
	for i := 0; i < k; i++ {
		s += u
	}
	return s
}

var c01LongCases = []c01LongCase{
	{src: "find all at least 1 'a' 'b'", unit: "a", tail: func(k int) string { return "b" }, want: func(k int) [][2]int { return [][2]int{{0, k + 1}} }},
	{src: "find all at least 1 any 'b'", unit: "a", tail: func(k int) string { return "" }, want: func(k int) [][2]int { return nil }},
	{src: "find all at least 1 any fewest 'b'", unit: "a", tail: func(k int) string { return "b" }, want: func(k int) [][2]int { return [][2]int{{0, k + 1}} }},
	{src: "find all {'a' maybe s 'b'} = s", unit: "a", tail: func(k int) string { return c01Rep("b", k) }, want: func(k int) [][2]int { return [][2]int{{0, 2 * k}} }},
	{src: "find all at least 1 ('a' = x) 'b'", unit: "a", tail: func(k int) string { return "b" }, want: func(k int) [][2]int { return [][2]int{{0, k + 1}} },
		varx: func(k int) (string, bool) { return "a", true }},
	{src: "find all (at least 1 'a') = x 'b' x", unit: "a", tail: func(k int) string { return "b" + c01Rep("a", k) }, want: func(k int) [][2]int { return [][2]int{{0, 2*k + 1}} },
		varx: func(k int) (string, bool) { return c01Rep("a", k), true }},
	{src: "find all at least 1 ('a' or 'b') 'c'", unit: "ab", tail: func(k int) string { return "c" }, want: func(k int) [][2]int { return [][2]int{{0, 2*k + 1}} }},
	{src: "find all at least 1 (at least 1 'a' 'b') 'c'", unit: "aab", tail: func(k int) string { return "c" }, want: func(k int) [][2]int { return [][2]int{{0, 3*k + 1}} }},
	{src: "find all at least 1 (maybe 'a' 'b')", unit: "ab", tail: func(k int) string { return "" }, want: func(k int) [][2]int { return [][2]int{{0, 2 * k}} }},
	{src: "set p to pattern 'a' or 'b' find all at least 1 p 'c'", unit: "ba", tail: func(k int) string { return "c" }, want: func(k int) [][2]int { return [][2]int{{0, 2*k + 1}} }},
	{src: "find all at least 1 (not in 'x', 'y') 'x'", unit: "a", tail: func(k int) string { return "x" }, want: func(k int) [][2]int { return [][2]int{{0, k + 1}} }},
	{src: "find all at least 2 'ab' fewest 'c'", unit: "ab", tail: func(k int) string { return "c" }, want: func(k int) [][2]int { return [][2]int{{0, 2*k + 1}} }},
}

func VerifC01LongCount() int { return len(c01LongCases) }

func VerifC01Long(c int, base int, span int) {
	cs := c01LongCases[c]
	k := base + vPick("repetitions beyond the base", span)
	text := c01Rep(cs.unit, k) + cs.tail(k)
	vNote("source", cs.src)
	vNoteInt("repetitions of the unit "+cs.unit, k)
	vNoteInt("text length", len(text))
	v, err := Compile(cs.src)
	if err != nil {
		vFail("harness: program does not compile")
	}
	got := v.Run(text)
	want := cs.want(k)
	if len(got) != len(want) {
		vNote("got", vSpansStr(got))
		vFail("spans differ from the reference backtracking semantics")
	}
	for i := range got {
		if got[i].Offset.Start != want[i][0] || got[i].Offset.End != want[i][1] || got[i].Value != text[want[i][0]:want[i][1]] {
			vNote("got", vSpansStr(got))
			vFail("spans differ from the reference backtracking semantics")
		}
	}
	if cs.varx != nil && len(got) > 0 {
		wx, _ := cs.varx(k)
		x, ok := got[0].Variables.Get("x")
		if !ok || x.String().Value != wx {
			vFail("variable does not hold the text of the most recent completed binding")
		}
	}
	_ = engine.Match{}
}
