package libvore

import (
	"github.com/jmeaster30/vore/libvore/bytecode"
)

// C01 sub-obligation (a): jump-target well-formedness of the generated code. Every absolute target the
// code generator or the relocation computes must point at the instruction it is meant for: calls at the
// StartSubroutine of their own name, loop starts and stops at each other, subroutine starts at their end,
// branches and jumps inside the program. This is independent of any input text, so it also covers
// programs whose shortest distinguishing input is far beyond the text bound of the matching harnesses
// (e.g. a call inside the third unrolled copy of a loop body).

func c01CheckBody(insts []bytecode.SearchInstruction) string {
	n := len(insts)
	for pc, in := range insts {
		switch x := in.(type) {
		case bytecode.Branch:
			if len(x.Branches) == 0 {
				return "branch without targets"
			}
			for _, t := range x.Branches {
				if t <= pc || t >= n {
					return "branch target outside the program or not forward"
				}
			}
		case bytecode.Jump:
			if x.NewProgramCounter <= pc || x.NewProgramCounter > n {
				return "jump target outside the program or not forward"
			}
		case bytecode.StartLoop:
			if x.ExitLoop <= pc || x.ExitLoop >= n {
				return "loop exit outside the program"
			}
			stop, ok := insts[x.ExitLoop].(bytecode.StopLoop)
			if !ok || stop.Id != x.Id || stop.StartLoop != pc {
				return "StartLoop.ExitLoop does not point at the StopLoop of the same loop"
			}
		case bytecode.StopLoop:
			if x.StartLoop < 0 || x.StartLoop >= pc {
				return "loop start outside the program"
			}
			start, ok := insts[x.StartLoop].(bytecode.StartLoop)
			if !ok || start.Id != x.Id || start.ExitLoop != pc {
				return "StopLoop.StartLoop does not point at the StartLoop of the same loop"
			}
		case bytecode.CallSubroutine:
			if x.ToPC < 0 || x.ToPC >= n {
				return "call target outside the program"
			}
			sub, ok := insts[x.ToPC].(bytecode.StartSubroutine)
			if !ok || sub.Name != x.Name {
				return "call does not target the start of the subroutine it names"
			}
		case bytecode.StartSubroutine:
			if x.Id != pc {
				return "subroutine id is not its own program counter"
			}
			if x.EndOffset <= pc || x.EndOffset >= n {
				return "subroutine end outside the program"
			}
			end, ok := insts[x.EndOffset].(bytecode.EndSubroutine)
			if !ok || end.Name != x.Name {
				return "StartSubroutine.EndOffset does not point at the end of the same subroutine"
			}
		case bytecode.StartNotIn:
			t := x.NextCheckpointPC
			if t <= pc+1 || t >= n {
				return "not-in checkpoint outside the program"
			}
			if _, ok := insts[t-1].(bytecode.FailNotIn); !ok {
				return "not-in checkpoint is not preceded by the item's FailNotIn"
			}
			switch insts[t].(type) {
			case bytecode.StartNotIn, bytecode.EndNotIn:
			default:
				return "not-in checkpoint does not point at the next item or the end of the list"
			}
		}
	}
	return ""
}

func c01WellFormedSource(i int) string {
	n1 := len(c01Atoms) + len(c01Combs) + len(c01Globals)
	if i < n1 {
		return c01Shape(i)
	}
	i -= n1
	if i < VerifC01GenCount() {
		return c01GenSource(i)
	}
	i -= VerifC01GenCount()
	return c01Deep[i]
}

// programs whose distinguishing inputs are long: counted loops of 3+ copies around calls, alternations and lists
var c01Deep = []string{
	"find all {'a' 'b'} = s exactly 3 s", "find all {'a' 'b'} = s exactly 2 (',' s)", "find all {'a' maybe s 'b'} = s exactly 2 (',' s)", "find all {'a'} = s at least 3 ('x' s 'y')",
	"set p to pattern 'a' 'b' find all p exactly 3 p", "set p to pattern 'a' or 'b' find all p between 2 and 4 ('-' p)", "set p to pattern in 'a', 'b' find all 'x' p at least 2 (p 'y')",
	"set p to pattern at least 1 digit find all p exactly 2 ('.' p)", "set p to pattern 'a' set q to pattern p 'b' find all q exactly 2 (q p)", "find all exactly 3 ('a' or 'b' or 'c')",
	"find all exactly 3 in 'a', 'b' to 'd'", "find all exactly 3 not in 'a', 'b'", "find all at least 3 (at most 2 ('a' or 'b') 'c')",
	"find all exactly 2 (exactly 2 ('a' or 'b'))", "find all {exactly 2 ('a' or s 'b')} = s", "set p to pattern {'a' maybe q 'b'} = q 'd' find all exactly 2 p",
	"set p to pattern not in 'a', 'bc' find all exactly 2 ('x' p) p",
}

func VerifC01WellFormedCount() int {
	return len(c01Atoms) + len(c01Combs) + len(c01Globals) + VerifC01GenCount() + len(c01Deep)
}

// The shape of the generated code is an implementation matter; the property is about matches. An
// unexpected shape is therefore only a lead: the harness then searches for an input of at most T bytes on
// which the program's matches differ from the reference semantics, and reports a violation only with such
// an input. Without one the run is inconclusive.
func VerifC01WellFormed(i int, T int) {
	src := c01WellFormedSource(i)
	vNote("source", src)
	bc := vGen(vParse(src))
	for _, cmd := range bc.Bytecode {
		var body []bytecode.SearchInstruction
		switch c := cmd.(type) {
		case bytecode.FindCommand:
			body = c.Body
		case bytecode.ReplaceCommand:
			body = c.Body
		default:
			continue
		}
		vReach("body-checked")
		if msg := c01CheckBody(body); msg != "" {
			vNote("code-shape", msg)
			c01Witness(src, T)
			vUnproved("generated code has an unexpected shape (" + msg + ") and no input of up to " + vItoa(T) + " bytes separates it from the reference semantics: " + src)
		}
	}
}

// c01Witness looks for an input of at most T bytes on which the real pipeline and the reference semantics
// differ for this program (fails with the ordinary C01 message when there is one).
func c01Witness(src string, T int) {
	a := vParse(src)
	text := vText("text", 0, T, true)
	vNote("text", text)
	c01Compare(a, text, 0)
}

// VerifC01DeepCmp: the long-witness programs compared with the reference semantics at a larger text bound.
func VerifC01DeepCmp(i int, T int) {
	src := c01Deep[i]
	vNote("source", src)
	c01Witness(src, T)
}
