package libvore

// C16 (API level): `find all <literal>` matches the text b and nothing else of that length.

func VerifC16Match(n int, twin int) {
	q := byte('\'')
	if vBool("doublequote") {
		q = '"'
	}
	b := make([]byte, n)
	for i := range b {
		b[i] = vByte("body")
		vAssume(b[i] >= 1 && b[i] < 0x80)
	}
	body := string(b)
	lit := string([]byte{q}) + body + string([]byte{q})
	vNote("source", "find all "+lit)
	want, ok := refUnescape(body, q)
	if !ok || len(want) == 0 {
		return
	}
	vNote("want", want)
	v, err := Compile("find all " + lit)
	if err != nil {
		vFail("a complete string literal does not compile")
	}
	text := vTextN("text", len(want), true)
	vNote("text", text)
	ms := v.Run(text)
	if twin != 0 {
		vFail("TWIN reached the comparison")
	}
	if text == want {
		if len(ms) != 1 || ms[0].Offset.Start != 0 || ms[0].Offset.End != len(want) {
			vFail("the literal does not match the text it spells")
		}
	} else if len(ms) == 1 && ms[0].Offset.Start == 0 && ms[0].Offset.End == len(text) {
		vFail("the literal matches a different text of the same length")
	}
}
