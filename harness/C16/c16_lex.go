package ast

import "strings"

// C16 (lexer level): string literals denote exactly the bytes their escapes describe.

func c16Body(n int) (string, byte) {
	q := byte('\'')
	if vBool("doublequote") {
		q = '"'
	}
	b := make([]byte, n)
	for i := range b {
		b[i] = vByte("body")
		vAssume(b[i] >= 1 && b[i] < 0x80)
	}
	return string(b), q
}

func VerifC16Lex(n int, twin int) {
	body, q := c16Body(n)
	src := string([]byte{q}) + body + string([]byte{q})
	vNote("source", src)
	want, ok := refUnescape(body, q)
	if !ok {
		return
	}
	vNote("want", want)
	tokens, err := initLexer(strings.NewReader(src)).getTokens()
	vReach("lexed")
	if twin != 0 {
		vFail("TWIN reached the comparison")
	}
	if err != nil {
		vFail("a complete string literal is rejected by the lexer")
	}
	if len(tokens) != 2 || tokens[0].TokenType != STRING || tokens[1].TokenType != EOF {
		vFail("a complete string literal does not lex to exactly one STRING token")
	}
	if tokens[0].Lexeme != want {
		vNote("got", tokens[0].Lexeme)
		vFail("string literal denotes other bytes than its escapes describe")
	}
}

// VerifC16LexPrefixed: longer bodies with a fixed escape prefix, to reach \x with 0, 1 or 2 hex digits
// followed by arbitrary characters without paying for all shorter spellings again.
func VerifC16LexPrefixed(n int) {
	q := byte('\'')
	if vBool("doublequote") {
		q = '"'
	}
	b := make([]byte, n)
	for i := range b {
		b[i] = vByte("body")
		vAssume(b[i] >= 1 && b[i] < 0x80)
	}
	body := "\\x" + string(b)
	src := string([]byte{q}) + body + string([]byte{q})
	vNote("source", src)
	want, ok := refUnescape(body, q)
	if !ok {
		return
	}
	vNote("want", want)
	tokens, err := initLexer(strings.NewReader(src)).getTokens()
	if err != nil || len(tokens) != 2 || tokens[0].TokenType != STRING {
		vFail("a complete string literal starting with \\\\x does not lex to one STRING token")
	}
	if tokens[0].Lexeme != want {
		vNote("got", tokens[0].Lexeme)
		vFail("string literal denotes other bytes than its escapes describe")
	}
}

// VerifC16LexLong: a literal longer than the lexer's read buffer. k plain letters, then 3 arbitrary
// symbolic bytes (every escape spelling that fits, every raw byte), then a letter: with k symbolic in a
// window around 4096 the three bytes straddle the buffer boundary of the reader at every alignment, so a
// look-ahead that fails at the edge of the buffer shows.
func VerifC16LexLong(base int, span int) {
	q := byte('\'')
	if vBool("doublequote") {
		q = '"'
	}
	k := base + vPick("plain letters in front", span)
	pad := make([]byte, k)
	for i := range pad {
		pad[i] = byte('a' + i%26)
	}
	b := make([]byte, 3)
	for i := range b {
		b[i] = vByte("body")
		vAssume(b[i] >= 1 && b[i] < 0x80)
	}
	tail := string(b) + "z"
	src := string([]byte{q}) + string(pad) + tail + string([]byte{q})
	vNote("source", "quote + k letters + "+tail+" + quote")
	vNoteInt("k", k)
	wantTail, ok := refUnescape(tail, q)
	if !ok {
		return
	}
	want := string(pad) + wantTail
	tokens, err := initLexer(strings.NewReader(src)).getTokens()
	if err != nil || len(tokens) != 2 || tokens[0].TokenType != STRING {
		vFail("a complete string literal is rejected by the lexer")
	}
	if tokens[0].Lexeme != want {
		vNoteInt("got length", len(tokens[0].Lexeme))
		vNoteInt("want length", len(want))
		vFail("string literal denotes other bytes than its escapes describe")
	}
}
