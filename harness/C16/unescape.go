package PKG

// refUnescape: the documented meaning of the text between the quotes of a vore string literal.
// ok=false when the text is not one complete literal body for that quote (contains the bare
// quote, or ends inside an escape), or uses something the property does not cover (\xHH >= 0x80).
func refUnescape(body string, quote byte) (out string, ok bool) {
	isHex := func(c byte) bool {
		return (c >= '0' && c <= '9') || (c >= 'a' && c <= 'f') || (c >= 'A' && c <= 'F')
	}
	hexVal := func(c byte) byte {
		switch {
		case c >= '0' && c <= '9':
			return c - '0'
		case c >= 'a' && c <= 'f':
			return c - 'a' + 10
		}
		return c - 'A' + 10
	}
	res := []byte{}
	i := 0
	for i < len(body) {
		c := body[i]
		if c == quote {
			return "", false
		}
		if c != '\\' {
			res = append(res, c)
			i++
			continue
		}
		if i+1 >= len(body) {
			return "", false // the backslash would escape the closing quote
		}
		e := body[i+1]
		if e == 'x' {
			if i+3 < len(body) && isHex(body[i+2]) && isHex(body[i+3]) {
				v := hexVal(body[i+2])*16 + hexVal(body[i+3])
				if v >= 0x80 || v == 0 {
					return "", false // outside the ASCII claim
				}
				res = append(res, v)
				i += 4
				continue
			}
			// an incomplete \x escape keeps all of its following characters
			res = append(res, 'x')
			i += 2
			continue
		}
		switch e {
		case 'n':
			res = append(res, 10)
		case 't':
			res = append(res, 9)
		case 'r':
			res = append(res, 13)
		case 'a':
			res = append(res, 7)
		case 'b':
			res = append(res, 8)
		case 'f':
			res = append(res, 12)
		case 'v':
			res = append(res, 11)
		default:
			res = append(res, e)
		}
		i += 2
	}
	return string(res), true
}
