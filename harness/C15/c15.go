package ast

import (
	"strings"

	"github.com/jmeaster30/vore/libvore/ds"
)

// C15: whitespace, comments and keyword case never change a program's meaning.

func VerifC15Count() int { return len(c15Corpus) }

func c15Lex(src string) []*Token {
	tokens, err := initLexer(strings.NewReader(src)).getTokens()
	if err != nil {
		vFail("harness: corpus program does not lex: " + src)
	}
	return tokens
}

func c15Core(tokens []*Token) []*Token {
	var core []*Token
	for _, t := range tokens {
		if t.TokenType != WS && t.TokenType != COMMENT && t.TokenType != EOF {
			core = append(core, t)
		}
	}
	return core
}

func c15Filler(t TokenType, lexeme string) *Token {
	return &Token{TokenType: t, Lexeme: lexeme, Offset: ds.NewRange(0, 1), Line: ds.NewRange(1, 1), Column: ds.NewRange(1, 2)}
}

// c15Layout keeps the original layout of the program except for the gap after core token `g`,
// whose filler tokens are replaced by `choice` (g = -1: unchanged).
func c15Layout(toks []*Token, g int, choice int) []*Token {
	out := []*Token{}
	ci := -1
	skipping := false
	for _, t := range toks {
		isFill := t.TokenType == WS || t.TokenType == COMMENT
		if !isFill {
			ci++
			skipping = false
			out = append(out, t)
			if ci == g && t.TokenType != EOF {
				skipping = true
				switch choice {
				case 0: // nothing
				case 1:
					out = append(out, c15Filler(WS, "\n\t "))
				case 2:
					out = append(out, c15Filler(COMMENT, "-- c"))
				case 3:
					out = append(out, c15Filler(WS, " "), c15Filler(COMMENT, "--( c )--"), c15Filler(WS, "\n"))
				case 4:
					out = append(out, c15Filler(COMMENT, "-- a"), c15Filler(COMMENT, "--(b)--"))
				}
			}
			continue
		}
		if !skipping {
			out = append(out, t)
		}
	}
	return out
}

// VerifC15Tokens: every gap of a corpus program x {nothing, blanks, line comment, blank+block comment+blank,
// two comments}: the program is still accepted and parses to the same syntax tree.
func VerifC15Tokens(prog int, twin int) {
	src := c15Corpus[prog]
	toks := c15Lex(src)
	core := c15Core(toks)
	if len(core) < 2 {
		return
	}
	g := vPick("gap", len(core)-1)
	choice := vPick("filler", 5)
	vNote("source", src)
	vNote("gap-after-token", core[g].Lexeme)
	vNoteInt("gap", g)
	vNoteInt("filler", choice)
	base, err0 := parse(toks)
	if err0 != nil {
		vFail("harness: corpus program is rejected as written")
	}
	alt, err1 := parse(c15Layout(toks, g, choice))
	if twin != 0 {
		vFail("TWIN reached the comparison")
	}
	if err1 != nil {
		vFail("a program is rejected after whitespace/comments were inserted between two tokens")
	}
	if !vDeepEqual(base, alt) {
		vFail("a program parses to a different syntax tree after whitespace/comments were inserted")
	}
}

// VerifC15Source: the same at source level through the real lexer, with symbolic comment bodies and
// blank runs: the token list modulo WS/COMMENT is unchanged.
func VerifC15Source(prog int, bodyLen int) {
	src := c15Corpus[prog]
	toks := c15Lex(src)
	core := c15Core(toks)
	if len(core) < 2 {
		return
	}
	g := vPick("gap", len(core)-1)
	kind := vPick("filler", 6)
	body := make([]byte, bodyLen)
	for i := range body {
		body[i] = vByte("comment")
		vAssume(body[i] >= 1 && body[i] < 0x80)
	}
	filler := ""
	if kind >= 4 {
		// the text of a block comment cannot contain its own terminator
		for i := 0; i+2 < bodyLen; i++ {
			vAssume(!(body[i] == ')' && body[i+1] == '-' && body[i+2] == '-'))
		}
	}
	switch kind {
	case 0:
		filler = " "
	case 1:
		filler = "\t\n"
	case 2:
		filler = "\r\n "
	case 3:
		for i := range body {
			vAssume(body[i] != '\n')
		}
		// a line comment whose text starts with '(' would open a block comment
		if bodyLen > 0 {
			vAssume(body[0] != '(')
		}
		filler = " --" + string(body) + "\n"
	case 4:
		// a comment glued to a preceding '-' token is the one place where a blank is needed ("---" reads as
		// a comment start): maximal-munch ambiguity, assumed away
		vAssume(core[g].TokenType != MINUS)
		filler = "--(" + string(body) + ")--"
	case 5:
		filler = " --(" + string(body) + ")-- "
	}
	// rebuild the source from the original token lexemes (strings and regexes from the original text)
	render := func(gap int, fill string) string {
		s := ""
		for i, t := range core {
			s += src[t.Offset.Start:t.Offset.End]
			if i == len(core)-1 {
				break
			}
			if i == gap {
				s += fill
			} else {
				s += " "
			}
		}
		return s
	}
	canon := render(-1, "")
	variant := render(g, filler)
	vNote("source", src)
	vNote("variant", variant)
	a := c15Core(c15Lex(canon))
	tb, err := initLexer(strings.NewReader(variant)).getTokens()
	if err != nil {
		vFail("a program does not lex after whitespace/comments were inserted between two tokens")
	}
	b := c15Core(tb)
	if len(a) != len(b) {
		vFail("inserting whitespace/comments changed the token sequence")
	}
	for i := range a {
		if a[i].TokenType != b[i].TokenType || a[i].Lexeme != b[i].Lexeme {
			vFail("inserting whitespace/comments changed the token sequence")
		}
	}
}

var c15Keywords = []string{"find", "replace", "with", "set", "to", "pattern", "matches", "transform", "function", "all", "skip", "take", "top", "last", "any", "whitespace", "digit",
	"upper", "lower", "letter", "whole", "line", "file", "word", "start", "end", "begin", "caseless", "not", "at", "least", "most", "between", "and", "exactly", "maybe", "fewest",
	"named", "in", "or", "if", "then", "else", "debug", "return", "head", "tail", "loop", "break", "continue", "true", "false"}

func VerifC15KeywordCount() int { return len(c15Keywords) }

// VerifC15Keyword: a keyword in any letter case lexes to the same token type.
func VerifC15Keyword(k int) {
	kw := c15Keywords[k]
	b := []byte(kw)
	for i := range b {
		if vBool("upper") {
			b[i] = b[i] - 'a' + 'A'
		}
	}
	vNote("source", "keyword "+kw)
	vNote("variant", string(b))
	want := c15Lex(kw)
	got := c15Lex(string(b))
	if len(want) != 2 || len(got) != 2 || want[0].TokenType == IDENTIFIER {
		vFail("harness: keyword list out of date")
	}
	if got[0].TokenType != want[0].TokenType {
		vFail("changing the letter case of a keyword changed its token type")
	}
}

// VerifC15Long: fillers longer than the lexer's read buffer. The inserted blank run / line comment / block
// comment has a length L that is symbolic in a window around a multiple of 4096 (the default bufio.Reader
// size the lexer reads through), so that the filler starts before and ends after a buffer boundary at every
// alignment; the gap is symbolic. Same oracle as VerifC15Source.
func VerifC15Long(prog int, kind int, base int, span int) {
	src := c15Corpus[prog]
	toks := c15Lex(src)
	core := c15Core(toks)
	if len(core) < 2 {
		return
	}
	g := vPick("gap", len(core)-1)
	L := base + vPick("extra length", span)
	bodyB := make([]byte, L)
	for i := range bodyB {
		bodyB[i] = 'x'
		if kind == 0 {
			bodyB[i] = ' '
		}
	}
	body := string(bodyB)
	filler := ""
	switch kind {
	case 0:
		filler = body
	case 1:
		filler = " --" + body + "\n"
	case 2:
		vAssume(core[g].TokenType != MINUS)
		filler = "--(" + body + ")--"
	}
	render := func(gap int, fill string) string {
		s := ""
		for i, t := range core {
			s += src[t.Offset.Start:t.Offset.End]
			if i == len(core)-1 {
				break
			}
			if i == gap {
				s += fill
			} else {
				s += " "
			}
		}
		return s
	}
	canon := render(-1, "")
	variant := render(g, filler)
	vNote("source", src)
	vNoteInt("gap", g)
	vNoteInt("filler kind (0 blanks, 1 line comment, 2 block comment)", kind)
	vNoteInt("filler length", L)
	a := c15Core(c15Lex(canon))
	tb, err := initLexer(strings.NewReader(variant)).getTokens()
	if err != nil {
		vFail("a program does not lex after whitespace/comments were inserted between two tokens")
	}
	b := c15Core(tb)
	if len(a) != len(b) {
		vFail("inserting whitespace/comments changed the token sequence")
	}
	for i := range a {
		if a[i].TokenType != b[i].TokenType || a[i].Lexeme != b[i].Lexeme {
			vFail("inserting whitespace/comments changed the token sequence")
		}
	}
}
