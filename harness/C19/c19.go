package libvore

import (
	"sync"

	"github.com/jmeaster30/vore/libvore/engine"
)

// C19: Compile and Run are safe to call from many goroutines.
// Under gosym this is decided by footprints: libvore starts no goroutines, so two calls race iff one
// writes memory the other accesses. Every access to a package-level variable of the repository is
// logged with the set of mutexes held (lockset refinement); a variable that is written and whose
// accesses do not all hold one common lock is a race between two concurrent calls. Memory reachable
// from a shared compiled program is frozen during Run. Natively (replay) the same entry points hammer
// the API from several goroutines under the race detector and compare with the sequential results.

var c19Sources = []string{
	"find all 'a'",
	"find all @/(a)(b)/",
	"find all @/((a)|b)+c/ @/(d)/",
	"set p to pattern 'a' or 'b' find all p p",
	"set f to transform return match + 'x' end replace all any with f",
	"find all at least 1 ('a' = x) named l",
	"find all {'a' maybe s 'b'} = s",
	"find all in 'a', 'b' to 'd' not in 'x'",
}

func VerifC19Count() int { return len(c19Sources) }

func c19Render(ms engine.Matches) string {
	s := ""
	for _, m := range ms {
		s += "[" + vItoa(m.Offset.Start) + "," + vItoa(m.Offset.End) + ")" + m.Value
		keys := m.Variables.Keys()
		// order-independent rendering of the variable names
		for i := 0; i < len(keys); i++ {
			for j := i + 1; j < len(keys); j++ {
				if keys[j] < keys[i] {
					keys[i], keys[j] = keys[j], keys[i]
				}
			}
		}
		for _, k := range keys {
			v, _ := m.Variables.Get(k)
			if g, ok := v.ToGo().(string); ok {
				s += " " + k + "=" + g
			} else {
				s += " " + k + "={}"
			}
		}
		s += ";"
	}
	return s
}

// VerifC19Compile: one Compile call of source i followed by `tail` arbitrary bytes.
func VerifC19Compile(i int, tail int) {
	b := make([]byte, tail)
	for j := range b {
		b[j] = vByte("tail")
		vAssume(b[j] >= 0x20 && b[j] < 0x7f)
	}
	src := c19Sources[i] + string(b)
	vNote("source", src)
	if vSymbolic() {
		vAccessLogReset()
		func() {
			defer func() { recover() }() // crashes of Compile are C08's subject
			Compile(src)
		}()
		if vUnsyncGlobals() != 0 {
			vFail("Compile writes a package-level variable without synchronisation: concurrent Compile calls race")
		}
		return
	}
	// native: many goroutines compile this and another source at the same time
	seqV, seqErr := Compile(src)
	seq := ""
	if seqErr == nil {
		seq = c19Render(seqV.Run("ab abc d aab"))
	}
	var wg sync.WaitGroup
	bad := make(chan string, 64)
	for g := 0; g < 8; g++ {
		wg.Add(1)
		go func(g int) {
			defer wg.Done()
			for r := 0; r < 200; r++ {
				other := c19Sources[(i+g+r)%len(c19Sources)]
				Compile(other)
				v, err := Compile(src)
				if (err == nil) != (seqErr == nil) {
					bad <- "concurrent Compile accepts/rejects differently"
					return
				}
				if err == nil && c19Render(v.Run("ab abc d aab")) != seq {
					bad <- "a program compiled concurrently behaves differently"
					return
				}
			}
		}(g)
	}
	wg.Wait()
	select {
	case msg := <-bad:
		vFail(msg)
	default:
	}
}

// VerifC19Run: Run calls on one shared compiled program.
func VerifC19Run(i int, T int) {
	src := c19Sources[i]
	v, err := Compile(src)
	if err != nil {
		vFail("harness: source does not compile: " + src)
	}
	text := vText("text", 0, T, true)
	vNote("source", src)
	vNote("text", text)
	if vSymbolic() {
		vFreeze("compiled program shared by concurrent Run calls", v)
		vAccessLogReset()
		func() {
			defer func() {
				if r := recover(); r != nil {
					vThaw()
				}
			}()
			v.Run(text)
		}()
		vThaw()
		if vUnsyncGlobals() != 0 {
			vFail("Run writes a package-level variable without synchronisation: concurrent Run calls race")
		}
		return
	}
	seq := c19Render(v.Run(text))
	var wg sync.WaitGroup
	bad := make(chan string, 64)
	for g := 0; g < 8; g++ {
		wg.Add(1)
		go func() {
			defer wg.Done()
			for r := 0; r < 200; r++ {
				if c19Render(v.Run(text)) != seq {
					bad <- "a concurrent Run returns a different result than the sequential Run"
					return
				}
				v.Run("xyz")
			}
		}()
	}
	wg.Wait()
	select {
	case msg := <-bad:
		vFail(msg)
	default:
	}
}

// ---- two calls at once under the symbolic scheduler --------------------------------------------------

// c19CompileRender: what a caller can observe of one Compile call.
func c19CompileRender(src string) string {
	v, err := Compile(src)
	if err != nil {
		return "error"
	}
	return c19Render(v.Run("ab abc d aab"))
}

// VerifC19ParCompile: Compile(source i) and Compile(source j) run as two threads; every interleaving of
// their synchronisation points is explored; each call must return what it returns alone.
func VerifC19ParCompile(i int, j int) {
	a, b := c19Sources[i], c19Sources[j]
	vNote("source A", a)
	vNote("source B", b)
	seqA, seqB := c19CompileRender(a), c19CompileRender(b)
	if !vSymbolic() {
		c19Hammer("a Compile call running next to another Compile call returns a different program than the same call alone", func() bool { return c19CompileRender(a) == seqA }, func() bool { return c19CompileRender(b) == seqB })
		return
	}
	resA, resB := "", ""
	vAccessLogReset()
	vPar(func() { resA = c19CompileRender(a) }, func() { resB = c19CompileRender(b) })
	if resA != seqA || resB != seqB {
		vFail("a Compile call running next to another Compile call returns a different program than the same call alone")
	}
}

// VerifC19ParRun: two Run calls on one shared program (texts symbolic), and a Run next to a Compile.
func VerifC19ParRun(i int, T int) {
	src := c19Sources[i]
	v, err := Compile(src)
	if err != nil {
		vFail("harness: source does not compile: " + src)
	}
	t1 := vText("text1", 0, T, true)
	t2 := vText("text2", 0, T, true)
	vNote("source", src)
	vNote("text1", t1)
	vNote("text2", t2)
	seq1, seq2 := c19Render(v.Run(t1)), c19Render(v.Run(t2))
	other := c19Sources[(i+1)%len(c19Sources)]
	seqC := c19CompileRender(other)
	if !vSymbolic() {
		c19Hammer("a Run call running next to another Run call on the same program returns different matches than the same call alone", func() bool { return c19Render(v.Run(t1)) == seq1 }, func() bool { return c19Render(v.Run(t2)) == seq2 })
		c19Hammer("a Compile call running next to a Run call returns a different program than the same call alone", func() bool { return c19Render(v.Run(t1)) == seq1 }, func() bool { return c19CompileRender(other) == seqC })
		return
	}
	r1, r2, rc := "", "", ""
	vAccessLogReset()
	vPar(func() { r1 = c19Render(v.Run(t1)) }, func() { r2 = c19Render(v.Run(t2)); rc = c19CompileRender(other) })
	if r1 != seq1 || r2 != seq2 {
		vFail("a Run call running next to another Run call on the same program returns different matches than the same call alone")
	}
	if rc != seqC {
		vFail("a Compile call running next to a Run call returns a different program than the same call alone")
	}
}

// c19Hammer (native side): both closures from several goroutines at once; each must keep reporting true.
func c19Hammer(msg string, f func() bool, g func() bool) {
	var wg sync.WaitGroup
	bad := make(chan string, 64)
	for w := 0; w < 16; w++ {
		wg.Add(1)
		go func(w int) {
			defer wg.Done()
			for r := 0; r < 2000; r++ {
				h := f
				if (w+r)%2 == 1 {
					h = g
				}
				if !h() {
					bad <- msg
					return
				}
			}
		}(w)
	}
	wg.Wait()
	select {
	case msg := <-bad:
		vFail(msg)
	default:
	}
}
