package libvore

import (
	"sync"

	"github.com/jmeaster30/vore/libvore/engine"
)

// C19: Compile and Run are safe to call from many goroutines.
// Under gosym this is decided by footprints: libvore starts no goroutines, so two calls race iff one
// writes memory the other accesses. Every access to a package-level variable of the repository is
// logged with the set of mutexes held (lockset refinement); a variable that is written and whose
// accesses do not all hold one common lock is a race between two concurrent calls. Memory reachable
// from a shared compiled program is frozen during Run. Natively (replay) the same entry points hammer
// the API from several goroutines under the race detector and compare with the sequential results.

var c19Sources = []string{
	"find all 'a'",
	"find all @/(a)(b)/",
	"find all @/((a)|b)+c/ @/(d)/",
	"set p to pattern 'a' or 'b' find all p p",
	"set f to transform return match + 'x' end replace all any with f",
	"find all at least 1 ('a' = x) named l",
	"find all {'a' maybe s 'b'} = s",
	"find all in 'a', 'b' to 'd' not in 'x'",
}

func VerifC19Count() int { return len(c19Sources) }

func c19Render(ms engine.Matches) string {
	s := ""
	for _, m := range ms {
		s += "[" + vItoa(m.Offset.Start) + "," + vItoa(m.Offset.End) + ")" + m.Value
		keys := m.Variables.Keys()
		// order-independent rendering of the variable names
		for i := 0; i < len(keys); i++ {
			for j := i + 1; j < len(keys); j++ {
				if keys[j] < keys[i] {
					keys[i], keys[j] = keys[j], keys[i]
				}
			}
		}
		for _, k := range keys {
			v, _ := m.Variables.Get(k)
			if g, ok := v.ToGo().(string); ok {
				s += " " + k + "=" + g
			} else {
				s += " " + k + "={}"
			}
		}
		s += ";"
	}
	return s
}

// VerifC19Compile: one Compile call of source i followed by `tail` arbitrary bytes.
func VerifC19Compile(i int, tail int) {
	b := make([]byte, tail)
	for j := range b {
		b[j] = vByte("tail")
		vAssume(b[j] >= 0x20 && b[j] < 0x7f)
	}
	src := c19Sources[i] + string(b)
	vNote("source", src)
	if vSymbolic() {
		vAccessLogReset()
		func() {
			defer func() { recover() }() // crashes of Compile are C08's subject
			Compile(src)
		}()
		if vUnsyncGlobals() != 0 {
			vFail("Compile writes a package-level variable without synchronisation: concurrent Compile calls race")
		}
		return
	}
	// native: many goroutines compile this and another source at the same time
	seqV, seqErr := Compile(src)
	seq := ""
	if seqErr == nil {
		seq = c19Render(seqV.Run("ab abc d aab"))
	}
	var wg sync.WaitGroup
	bad := make(chan string, 64)
	for g := 0; g < 8; g++ {
		wg.Add(1)
		go func(g int) {
			defer wg.Done()
			for r := 0; r < 200; r++ {
				other := c19Sources[(i+g+r)%len(c19Sources)]
				Compile(other)
				v, err := Compile(src)
				if (err == nil) != (seqErr == nil) {
					bad <- "concurrent Compile accepts/rejects differently"
					return
				}
				if err == nil && c19Render(v.Run("ab abc d aab")) != seq {
					bad <- "a program compiled concurrently behaves differently"
					return
				}
			}
		}(g)
	}
	wg.Wait()
	select {
	case msg := <-bad:
		vFail(msg)
	default:
	}
}

// VerifC19Run: Run calls on one shared compiled program.
func VerifC19Run(i int, T int) {
	src := c19Sources[i]
	v, err := Compile(src)
	if err != nil {
		vFail("harness: source does not compile: " + src)
	}
	text := vText("text", 0, T, true)
	vNote("source", src)
	vNote("text", text)
	if vSymbolic() {
		vFreeze("compiled program shared by concurrent Run calls", v)
		vAccessLogReset()
		func() {
			defer func() {
				if r := recover(); r != nil {
					vThaw()
				}
			}()
			v.Run(text)
		}()
		vThaw()
		if vUnsyncGlobals() != 0 {
			vFail("Run writes a package-level variable without synchronisation: concurrent Run calls race")
		}
		return
	}
	seq := c19Render(v.Run(text))
	var wg sync.WaitGroup
	bad := make(chan string, 64)
	for g := 0; g < 8; g++ {
		wg.Add(1)
		go func() {
			defer wg.Done()
			for r := 0; r < 200; r++ {
				if c19Render(v.Run(text)) != seq {
					bad <- "a concurrent Run returns a different result than the sequential Run"
					return
				}
				v.Run("xyz")
			}
		}()
	}
	wg.Wait()
	select {
	case msg := <-bad:
		vFail(msg)
	default:
	}
}
