package PKG

import "strconv"

func VerifToy(n int) {
	b := make([]byte, n)
	for i := range b {
		b[i] = vByte("t")
		vAssume(b[i] >= '0' && b[i] <= '9')
	}
	s := string(b)
	x, err := strconv.Atoi(s)
	if err != nil {
		vFail("atoi failed on digits")
	}
	vReach("parsed")
	if x == 42 {
		vNote("s", s)
		vFail("found 42")
	}
}
