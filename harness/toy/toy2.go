package PKG

func vText(label string, maxLen int, ascii bool) string {
	n := vPick(label+".len", maxLen+1)
	b := make([]byte, n)
	for i := range b {
		b[i] = vByte(label)
		if ascii {
			vAssume(b[i] < 0x80)
		}
	}
	return string(b)
}

func VerifToy2(T int) {
	v, err := Compile("find all 'ab' or digit")
	if err != nil {
		vFail("compile failed")
	}
	text := vText("text", T, true)
	vNote("text", text)
	ms := v.Run(text)
	for _, m := range ms {
		if m.Value != text[m.Offset.Start:m.Offset.End] {
			vFail("value mismatch")
		}
	}
	if len(ms) == 2 && ms[0].Value == "ab" {
		vFail("two matches first ab")
	}
}
