package libvore

import (
	"github.com/jmeaster30/vore/libvore/engine"
)

// C09 over files: RunFiles returns normally for accepted programs on every file content (also the empty
// file), in every replace mode, for one or several commands over the same file and for a file that is
// named twice. There is no assertion here except "returns": every panic of the explored paths is the
// violation.

var c09FilePrograms = []string{
	"find all 'a'", "replace all 'a' with 'bb'", "find all whole file", "find all line start any", "find all (any = x) x",
	"replace all 'a' with 'b' find all any", "find all 'a' replace all any with 'c'", "replace all 'a' with 'bb' replace all 'b' with ''",
	"replace all 'zz' with 'y' find all 'a'", "find all 'a' find all any", "set p to pattern 'a' find all p replace all p with 'b' find all p",
	"replace top 1 any with '' find last 1 any",
}

func VerifC09FilesCount() int { return len(c09FilePrograms) }

func VerifC09Files(prog int, T int) {
	src := c09FilePrograms[prog]
	v, err := Compile(src)
	if err != nil {
		vFail("harness: program does not compile: " + src)
	}
	content := vText("content", 0, T, true)
	modes := []engine.ReplaceMode{engine.NOTHING, engine.NEW, engine.OVERWRITE}
	mode := modes[vPick("mode", 3)]
	files := []string{"f"}
	if vBool("file listed twice") {
		files = []string{"f", "f"}
	}
	vNote("source", src)
	vNote("content", content)
	vNote("mode", mode.String())
	vNoteInt("files", len(files))
	vfsInit()
	defer vfsDone()
	vfsWrite("f", content)
	v.RunFiles(files, mode, false)
	vReach("returned")
}
