package libvore

import (
	"github.com/jmeaster30/vore/libvore/engine"
)

// C09: running an accepted program never crashes, whatever the input.
// Every panic on an explored path is a violation; the harness asserts nothing else.

var c09Extra = []string{
	"find all ()", "find all ''", "find all 'a' ''", "find all '' 'a'", "find all not ''", "find all caseless ''",
	"find all 'b' (maybe 'a') = x x", "find all (maybe 'a') = x x", "find all () = x x 'a'", "find all maybe () 'a'", "find all at least 0 () 'a'",
	"find all 'a' (at least 0 'b') = x x x", "find all whole file", "find all whole line", "find all whole word", "find all not whole file any",
	"find all not whole line any", "find all not whole word any", "find all any whole word", "find all any whole line", "find all any whole file",
	"find all in 'a' to 'cc'", "find all in 'aa' to 'c'", "find all not in 'a', 'bcd'", "find all not in 'abc' any", "find all in '' , 'a'", "find all not in ''",
	"find all at least 1 any named l", "find all at least 2 (any = x) named l", "find all between 1 and 2 'a' named l l", "find all exactly 2 any named l",
	"find all at least 1 (at least 1 any named i) named o", "find all at least 1 any named l 'a' = l",
	"set p to pattern any begin return match == 'a' end find all p", "set p to pattern at least 1 any begin return matchLength > 1 end find all 'x' p",
	"set p to pattern any begin if head match == 'a' then return true end return false end find all at least 1 p",
	"set f to transform return head match end replace all any with f", "set f to transform return tail match end replace all any any with f",
	"set f to transform return match - 1 end replace all any with f", "set f to transform return match * 2 end replace all digit with f",
	"set f to transform return 10 / match end replace all any with f", "set f to transform return 10 % match end replace all any with f",
	"set f to transform return match / 1 end replace all any with f", "set f to transform return matchLength / (matchLength - 1) end replace all any with f",
	"set f to transform set i to 0 loop set i to i + 1 if i >= matchLength then break end end return i end replace all at least 1 any with f",
	"set f to transform if match == 'a' then set r to 1 else set r to 'q' end return r + 1 end replace all any with f",
	"set f to transform if match == 'a' then set r to true else set r to 'q' end return 'p' + r end replace all any with f",
	"set f to transform if match == 'a' then set r to true else set r to 2 end if r then return 'y' end return 'n' end replace all any with f",
	"set f to transform if match == 'a' then set x to '5' else set x to 1 end return x - '1' end replace all any with f",
	"set f to transform if match == 'a' then set x to 1 else set x to 'q' end return x * 2 end replace all any with f",
	"set f to transform set x to 1 if match == 'a' then set x to 'q' end return x / 1 end replace all any with f",
	"set f to transform set x to 'q' loop set x to 1 break end return x - 'a' end replace all any with f",
	// a transform used twice in one with-list and on several matches, whose variables are read before they are assigned
	"set t to transform set out to seen + 'x' set seen to true return out end replace all any with t t",
	"set t to transform set out to n + 1 set n to 2 return out end replace all any with t '-' t",
	"set t to transform set out to head w set w to matchLength return out + w end set u to transform return w + 'u' end replace all any with t u t",
	"find all (at least 1 'a') = x ('b') = y 'c'", "find all (maybe 'a' 'b') = x (any) = y 'c'", "find all (at least 1 letter) = k '=' (at least 1 digit) = v",
	"find all {('a' maybe s 'b') = x} = s", "find all ((any = x) (any = y)) = z 'c'", "find all (at least 1 ('a' or 'b')) = x (at least 1 'c') = y 'd'",
	"replace all any with", "replace all any with nothing", "replace all (any = value) with value matchNumber", "replace all any with ''",
	"find skip 0 any", "find top 0 any", "find last 0 any", "find skip 9 take 9 any", "find last 9 any", "find take 1 any find skip 1 any",
	"find all @/a*/", "find all @/(a)?\\1/", "find all @/(a|)\\1b/", "find all @/a{0}/", "find all @/a{0,1}b/", "find all @/[a-c]+?/", "find all @/.$/", "find all @/^$/",
	"find all {maybe 'a'} = s s", "find all {'a' maybe s} = s", "find all {any s or any} = s",
}

func VerifC09Count() int {
	return len(c09Extra) + len(c01Atoms) + len(c01Combs) + len(c01Globals) + len(c02Shapes) + len(c03Shapes)
}

func c09Source(i int) string {
	if i < len(c09Extra) {
		return c09Extra[i]
	}
	i -= len(c09Extra)
	n1 := len(c01Atoms) + len(c01Combs) + len(c01Globals)
	if i < n1 {
		return c01Shape(i)
	}
	i -= n1
	if i < len(c02Shapes) {
		return c02Shapes[i]
	}
	i -= len(c02Shapes)
	return c03Shapes[i]
}

func VerifC09(shape int, T int, ascii int) {
	src := c09Source(shape)
	vNote("source", src)
	v, err := c09Compile(src)
	if err != nil || v == nil {
		// not an accepted program (or Compile itself crashed, which is C08's subject): outside the property
		vReach("rejected")
		return
	}
	text := vText("text", 0, T, ascii != 0)
	vNote("text", text)
	var ms engine.Matches = v.Run(text)
	vReach("returned")
	_ = ms
}

func c09Compile(src string) (v *Vore, err error) {
	defer func() {
		if recover() != nil {
			v = nil
		}
	}()
	return Compile(src)
}
