package libvore

// Enumerated family (the design's F3): every program of a small grammar, addressed by index, so that no
// combination of constructs is left to a hand-written list.
//
//   program := "find all" item(1) cont
//   item(d) := quant atomOrGroup(d)
//   quant   := none | maybe | at least 1 | at least 1 .. fewest | at most 2
//   atom    := 'a' | 'b' | 'ab' | any | in 'a', 'ab' | not 'a'
//   group   := (item item) | (item or item) | (item) = x | {item item} = s        (items of depth d-1)
//   cont    := nothing | 'c' | 'b' | x | s                                       (x: back-reference, s: call)
//
// Programs that do not compile (a back-reference or call without its definition) and programs on which the
// property statement is silent (reference matcher: empty back-reference, ...) are skipped by the harness.

var c02Quants = []string{"%", "maybe %", "at least 1 %", "at least 1 % fewest", "at most 2 %"}
var c02Atoms = []string{"'a'", "'b'", "'ab'", "any", "in 'a', 'ab'", "not 'a'"}
var c02Conts = []string{"", " 'c'", " 'b'", " x", " s"}

func c02CountItem(d int) int { return len(c02Quants) * c02CountAtomOrGroup(d) }

func c02CountAtomOrGroup(d int) int {
	if d == 0 {
		return len(c02Atoms)
	}
	i := c02CountItem(d - 1)
	return len(c02Atoms) + 3*i*i + i
}

func c02UnrankItem(i int, d int) string {
	q := c02Quants[i%len(c02Quants)]
	body := c02UnrankAtomOrGroup(i/len(c02Quants), d)
	return c01Sub(q, body)
}

func c02UnrankAtomOrGroup(i int, d int) string {
	if i < len(c02Atoms) {
		return c02Atoms[i]
	}
	i -= len(c02Atoms)
	n := c02CountItem(d - 1)
	switch {
	case i < n*n:
		return "(" + c02UnrankItem(i/n, d-1) + " " + c02UnrankItem(i%n, d-1) + ")"
	case i < 2*n*n:
		i -= n * n
		return "((" + c02UnrankItem(i/n, d-1) + ") or (" + c02UnrankItem(i%n, d-1) + "))"
	case i < 3*n*n:
		i -= 2 * n * n
		return "{" + c02UnrankItem(i/n, d-1) + " " + c02UnrankItem(i%n, d-1) + "} = s"
	}
	i -= 3 * n * n
	return "((" + c02UnrankItem(i, d-1) + ") = x)"
}

func VerifC02EnumTotal() int { return c02CountItem(1) * len(c02Conts) }

// VerifC02Enum: program number `index` of the enumeration.
func VerifC02Enum(index int, T int) {
	n := c02CountItem(1)
	src := "find all " + c02UnrankItem(index%n, 1) + c02Conts[index/n]
	vNote("source", src)
	if _, err := Compile(src); err != nil {
		vReach("rejected")
		return
	}
	saved := c02Shapes
	c02Shapes = []string{src}
	defer func() { c02Shapes = saved }()
	VerifC02(0, T, 0, 0)
}
