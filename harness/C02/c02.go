package libvore

import (
	"github.com/jmeaster30/vore/libvore/engine"
)

// C02: captured variables are exactly the bindings of the successful path.

var c02Shapes = []string{
	"find all 'a' = x",
	"find all ('a' = x 'b') or ('a' 'c')",
	"find all ('a' = x 'b') or ('a' = y 'c')",
	"find all (('a' 'b') = x) or (('a' 'c') = y)",
	"find all 'a' = x ('b' = y 'c' or 'b' 'd')",
	"find all maybe ('a' = x) 'a'",
	"find all maybe ('a' = x 'b') 'a'",
	"find all at least 0 ('a' = x) 'b'",
	"find all at least 0 (any = x) 'b'",
	"find all at least 0 (any = x) fewest 'b'",
	"find all at most 2 ('a' = x 'b') 'a'",
	"find all (at least 1 'a') = x 'b'",
	"find all (at least 1 any) = x 'b'",
	"find all (at least 1 any fewest) = x 'b'",
	"find all any = x any = y",
	"find all any = x x",
	"find all (any any) = x x",
	"find all ('a' or 'b') = x x",
	"find all (at least 1 'a') = x 'b' x",
	"find all (maybe 'a') = x 'b'",
	"find all {'a' = x} = s",
	"find all {any = x 'b'} = s s",
	"find all {('a' = x 'b') or 'a'} = s 'c'",
	"find all ({'a' = x} = s) or 'b'",
	"find all ({'a' = x 'b'} = s) or ('a' 'c')",
	"find all at least 0 (('a' = x 'b') or ('a' = y)) 'c'",
	"find all ((any = x 'b') or (any any)) = y",
	"find all any = x (x or 'b')",
	"find all any = x at least 1 x",
	"find all (any = x any) = y maybe x",
	"replace all ('a' = x 'b') or ('a' 'c') with x",
	"set p to pattern 'a' or 'b' find all p = x 'c'",
	"set p to pattern any find all (p = x 'b') or (p 'c')",
}

// captures that enclose a recursive call of the subroutine they live in, sibling captures with a choice
// point inside the first one, captures around calls (need 4-byte witnesses)
var c02Deep = []string{
	"find all {('a' maybe s 'b') = x} = s",
	"find all {'a' (maybe s) = x 'b'} = s",
	"find all {('a' (s or 'c')) = x 'b'} = s",
	"find all {'a' = x maybe s 'b' = y} = s",
	"find all (at least 1 'a') = x ('b') = y 'c'",
	"find all (maybe 'a' 'b') = x (any) = y 'c'",
	"find all (at least 1 letter) = k '=' (at least 1 digit) = v",
	"find all ((any = x) (any = y)) = z 'c'",
	"find all {any = x} = s (s = y) x",
}

func VerifC02DeepCount() int { return len(c02Deep) }

func VerifC02Deep(shape int, T int) {
	saved := c02Shapes
	c02Shapes = c02Deep
	defer func() { c02Shapes = saved }()
	VerifC02(shape, T, 0, 0)
}

func VerifC02Count() int { return len(c02Shapes) }

func VerifC02(shape int, T int, symLits int, twin int) {
	src := c02Shapes[shape]
	a := vParse(src)
	if symLits > 0 {
		vSymboliseLiterals(a, symLits)
	}
	text := vText("text", 0, T, true)
	vNote("source", src)
	vNote("text", text)
	ref := newRefMatcher(a, text)
	want := ref.find(lastCommandBody(a))
	vAssume(!ref.silent)
	bc := vGen(a)
	got := engine.Run(bc, text)
	if twin != 0 {
		vFail("TWIN reached the comparison")
	}
	if !vSpansEqual(got, want) {
		// span disagreements are C01's subject; they are compared here because a back-reference can decide them
		vNote("got", vSpansStr(got))
		vNote("want", vRefSpansStr(want))
		vFail("spans differ (back-reference / capture semantics)")
	}
	for i := range got {
		vReach("match-checked")
		vars := got[i].Variables
		// every binding of the reference path is reported with the right text
		seen := map[string]bool{}
		nref := 0
		for e := want[i].env; e != nil; e = e.prev {
			if seen[e.name] {
				continue
			}
			seen[e.name] = true
			nref++
			v, found := vars.Get(e.name)
			if !found {
				vNote("var", e.name)
				vFail("binding of the successful path is missing from Variables")
			}
			if v.String().Value != text[e.start:e.end] {
				vNote("var", e.name)
				vNote("gotvalue", v.String().Value)
				vNote("wantvalue", text[e.start:e.end])
				vFail("variable does not hold the text of the most recent completed binding")
			}
		}
		// and no others
		if vars.Len() != nref {
			for _, k := range vars.Keys() {
				if !seen[k] {
					vNote("var", k)
				}
			}
			vFail("Variables contains a name bound only on an abandoned path")
		}
	}
}

// Generated family: a choice point P in front of a capture (B = x) whose continuation K can fail, placed
// in every context in which the path through the capture can be abandoned while another path of the same
// attempt succeeds. The classes come from the property statement (alternation, optional / repeated
// groups, lists whose options overlap), not from particular programs.
var c02GenList []string

func c02Gen() []string {
	if c02GenList != nil {
		return c02GenList
	}
	prefixes := []string{"", "(in 'q', 'a', 'ab')", "('a' or 'ab')", "(at least 1 any)", "(maybe 'a')", "(at least 1 'a' fewest)"}
	bodies := []string{"'b'", "any", "(at least 1 any)", "(at least 2 any)", "(in 'b', 'bc', 'q')", "(maybe 'b' any)"}
	for _, p := range prefixes {
		for _, b := range bodies {
			c := "(" + b + " = x)"
			// capture + failing continuation under alternation, under an optional group, under loops
			c02GenList = append(c02GenList,
				"find all ("+p+" "+c+" 'c') or 'a'",
				"find all "+p+" (maybe ("+c+" 'x')) 'c'",
				"find all at least 1 ("+p+" (maybe ("+c+" 'x')) ';')",
				"find all "+p+" (("+c+" 'x') or ("+b+" = y)) maybe 'c'",
			)
		}
	}
	// back-reference decides after the abandoned binding
	for _, p := range prefixes[1:] {
		c02GenList = append(c02GenList, "find all "+p+" (maybe (('b' = x) 'x')) ((x 'c') or 'cc')")
	}
	return c02GenList
}

func VerifC02GenCount() int { return len(c02Gen()) }

func VerifC02Gen(shape int, T int) {
	saved := c02Shapes
	c02Shapes = c02Gen()
	defer func() { c02Shapes = saved }()
	VerifC02(shape, T, 0, 0)
}
