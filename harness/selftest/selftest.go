package libvore

import (
	"strings"

	"github.com/jmeaster30/vore/libvore/ast"
)

// Translator validation (DESIGN §2.1): every (program, text) pair of the repository's own test suite is
// pushed through the natively compiled code and through gosym in concrete mode; the canonical dumps
// must be byte-identical. stPairs is generated from libvore/*_test.go on every run.

func stDumpValue(v any) string {
	switch x := v.(type) {
	case string:
		return "\"" + x + "\""
	case map[string]any:
		keys := []string{}
		for k := range x {
			keys = append(keys, k)
		}
		for i := 0; i < len(keys); i++ {
			for j := i + 1; j < len(keys); j++ {
				if keys[j] < keys[i] {
					keys[i], keys[j] = keys[j], keys[i]
				}
			}
		}
		s := "{"
		for _, k := range keys {
			s += k + ":" + stDumpValue(x[k]) + ","
		}
		return s + "}"
	}
	return "?"
}

func stDump(src string, text string) string {
	out := ""
	// token stream
	a, perr := ast.ParseReader(strings.NewReader(src))
	if perr != nil {
		out += "PARSE-ERROR "
	} else {
		out += "cmds=" + vItoa(len(a.Commands())) + " "
	}
	v, err := Compile(src)
	if err != nil {
		return out + "COMPILE-ERROR"
	}
	ms := v.Run(text)
	for _, m := range ms {
		out += "#" + vItoa(m.MatchNumber) + "[" + vItoa(m.Offset.Start) + "," + vItoa(m.Offset.End) + ")L" + vItoa(m.Line.Start) + "-" + vItoa(m.Line.End) +
			"C" + vItoa(m.Column.Start) + "-" + vItoa(m.Column.End) + "=\"" + m.Value + "\""
		if m.Replacement.HasValue() {
			out += "->\"" + m.Replacement.GetValue() + "\""
		}
		out += stDumpValue(m.Variables.ToGo()) + ";"
	}
	return out
}

func VerifSelftestCount() int { return len(stPairs) }

func VerifSelftest(i int) {
	d := stDump(stPairs[i][0], stPairs[i][1])
	vNote("dump", d)
}
