package libvore

import (
	"github.com/jmeaster30/vore/libvore/ast"
	"github.com/jmeaster30/vore/libvore/bytecode"
	"github.com/jmeaster30/vore/libvore/engine"
)

// C12 (statement level) and C11 (precedence): source-level harnesses through the real lexer,
// parser, checker (through GenerateBytecode, i.e. what Compile decides) and VM.

const (
	tErr = iota
	tString
	tNumber
	tBool
)

var c12Exprs = []string{
	"'s'", "1", "true", "match", "matchLength", "v", "1 + 2", "'a' + 1", "true and false", "1 < 2", "not true", "head match",
	"true + 1", "not 1", "1 and 2", "'a' - 'b'", "'a' - 1", "tail 1", "true < false", "'a' == 1", "1 == 'a'", "(1 < 2) == true", "not (match == 'a')",
}

// every loop of every skeleton ends with an unconditional break: the process code terminates
var c12Skeletons = []string{
	"return %",
	"if % then return % else return % end",
	"set v to % return v",
	"set v to % return %",
	"loop break end return %",
	"break return %",
	"continue return %",
	"loop loop break end break end return %",
	"loop loop break end if false then continue end break end return %",
	"if % then break end return %",
	"loop if % then break else break end continue end return %",
	"loop if % then loop break end break end break end return %",
	"debug % return %",
	"loop set v to % break end return v",
	"if % then set v to 1 else set v to 2 end return v + %",
	"loop if % then return % end break end return 'x'",
	"if % then loop break end continue end return %",
	"set v to % set w to v return w",
	"set w to v + 'x' set v to % return w",
}

func VerifC12StmtCount() int { return len(c12Skeletons) * 2 }

func c12TypeOf(e ast.AstProcessExpression, env map[string]int) int {
	switch x := e.(type) {
	case ast.AstProcessString:
		return tString
	case ast.AstProcessNumber:
		return tNumber
	case ast.AstProcessBoolean:
		return tBool
	case ast.AstProcessVariable:
		if t, ok := env[x.Name]; ok {
			return t
		}
		return tString
	case ast.AstProcessUnaryExpression:
		t := c12TypeOf(x.Expr, env)
		if x.Op == ast.NOT && t == tBool {
			return tBool
		}
		if (x.Op == ast.HEAD || x.Op == ast.TAIL) && t == tString {
			return tString
		}
		return tErr
	case ast.AstProcessBinaryExpression:
		l := c12TypeOf(x.Lhs, env)
		r := c12TypeOf(x.Rhs, env)
		if l == tErr || r == tErr {
			return tErr
		}
		op := x.Op
		cmp := op == ast.DEQUAL || op == ast.NEQUAL || op == ast.LESS || op == ast.GREATER || op == ast.LESSEQ || op == ast.GREATEREQ
		arith := op == ast.MINUS || op == ast.MULT || op == ast.DIV || op == ast.MOD
		switch l {
		case tString:
			if op == ast.PLUS {
				return tString
			}
			if cmp {
				return tBool
			}
			if arith && r == tNumber {
				return tNumber
			}
		case tBool:
			if op == ast.AND || op == ast.OR || cmp {
				return tBool
			}
		case tNumber:
			if cmp {
				return tBool
			}
			if op == ast.PLUS || arith {
				return tNumber
			}
		}
	}
	return tErr
}

type c12Ref struct {
	predicate bool
	retyped   bool // a variable was assigned a second type: outside the property's quantifier
}

func (c *c12Ref) stmts(ss []ast.AstProcessStatement, env map[string]int, inLoop bool) bool {
	for _, s := range ss {
		if !c.stmt(s, env, inLoop) {
			return false
		}
	}
	return true
}

func (c *c12Ref) stmt(s ast.AstProcessStatement, env map[string]int, inLoop bool) bool {
	switch x := s.(type) {
	case *ast.AstProcessSet:
		t := c12TypeOf(x.Expr, env)
		if t == tErr {
			return false
		}
		if old, ok := env[x.Name]; ok && old != t {
			c.retyped = true
		}
		env[x.Name] = t
		return true
	case *ast.AstProcessReturn:
		t := c12TypeOf(x.Expr, env)
		if c.predicate {
			return t == tBool
		}
		return t == tString || t == tNumber
	case *ast.AstProcessIf:
		if c12TypeOf(x.Condition, env) != tBool {
			return false
		}
		return c.stmts(x.TrueBody, env, inLoop) && c.stmts(x.FalseBody, env, inLoop)
	case *ast.AstProcessDebug:
		return c12TypeOf(x.Expr, env) != tErr
	case *ast.AstProcessLoop:
		return c.stmts(x.Body, env, true)
	case ast.AstProcessBreak:
		return inLoop
	case ast.AstProcessContinue:
		return inLoop
	}
	return false
}

func VerifC12Stmt(job int, twin int) {
	sk := c12Skeletons[job/2]
	predicate := job%2 == 1
	body := ""
	for i := 0; i < len(sk); i++ {
		if sk[i] == '%' {
			body += c12Exprs[vPick("expr", len(c12Exprs))]
		} else {
			body += string(sk[i])
		}
	}
	var src string
	if predicate {
		src = "set p to pattern any begin " + body + " end find all p"
	} else {
		// the transform is used twice per match: a call must not see what an earlier call assigned
		src = "set f to transform " + body + " end replace all any with f f"
	}
	vNote("source", src)
	a := vParse(src)
	var stmts []ast.AstProcessStatement
	set := a.Commands()[0].(*ast.AstSet)
	switch b := set.Body.(type) {
	case *ast.AstSetTransform:
		stmts = b.Statements
	case *ast.AstSetPattern:
		stmts = b.Body
	}
	ref := &c12Ref{predicate: predicate}
	env := map[string]int{"match": tString, "matchLength": tNumber}
	want := ref.stmts(stmts, env, false)
	vAssume(!ref.retyped)
	// what Compile decides (the public behaviour; no internal entry point of the checker is named here)
	_, gerr := bytecode.GenerateBytecode(a)
	got := gerr == nil
	if twin != 0 {
		vFail("TWIN reached the comparison")
	}
	if got != want {
		if want {
			vFail("C12: well-typed process code is rejected")
		}
		vFail("C12: ill-typed process code is accepted")
	}
	if got {
		// accepted code never meets an undefined operation at run time
		bc, _ := bytecode.GenerateBytecode(a)
		engine.Run(bc, "a")
		engine.Run(bc, "1")
		vReach("accepted-and-run")
	}
}

// ---- precedence (C11) ----

var c11pOps = []string{"+", "-", "*", "/", "%", "==", "!=", "<", ">", "<=", ">=", "and", "or"}
var c11pTok = []ast.TokenType{ast.PLUS, ast.MINUS, ast.MULT, ast.DIV, ast.MOD, ast.DEQUAL, ast.NEQUAL, ast.LESS, ast.GREATER, ast.LESSEQ, ast.GREATEREQ, ast.AND, ast.OR}

// documented levels: multiplicative > additive > comparison > and/or
func c11pLevel(i int) int {
	switch {
	case i >= 2 && i <= 4:
		return 3
	case i <= 1:
		return 2
	case i >= 5 && i <= 10:
		return 1
	}
	return 0
}

type c11pNode struct {
	leaf string
	op   int
	l, r *c11pNode
}

// reference: precedence climbing over the documented levels, left associative
func c11pParse(leaves []string, ops []int) *c11pNode {
	pos := 0
	var climb func(min int) *c11pNode
	climb = func(min int) *c11pNode {
		lhs := &c11pNode{leaf: leaves[pos]}
		for pos < len(ops) && c11pLevel(ops[pos]) >= min {
			op := ops[pos]
			pos++
			rhs := climb(c11pLevel(op) + 1)
			lhs = &c11pNode{op: op, l: lhs, r: rhs}
		}
		return lhs
	}
	return climb(0)
}

func c11pSame(n *c11pNode, e ast.AstProcessExpression) bool {
	if n.leaf != "" {
		v, ok := e.(ast.AstProcessVariable)
		return ok && v.Name == n.leaf
	}
	b, ok := e.(ast.AstProcessBinaryExpression)
	return ok && b.Op == c11pTok[n.op] && c11pSame(n.l, b.Lhs) && c11pSame(n.r, b.Rhs)
}

func c11pRender(n *c11pNode) string {
	if n.leaf != "" {
		return n.leaf
	}
	return "(" + c11pRender(n.l) + " " + c11pOps[n.op] + " " + c11pRender(n.r) + ")"
}

func c11pReturnExpr(src string) ast.AstProcessExpression {
	a := vParse(src)
	t := a.Commands()[0].(*ast.AstSet).Body.(*ast.AstSetTransform)
	return t.Statements[0].(*ast.AstProcessReturn).Expr
}

func VerifC11Prec(nops int, twin int) {
	leaves := []string{"a", "b", "c", "d", "e"}
	ops := make([]int, nops)
	src := "a"
	eqKind, relKind := false, false
	for i := 0; i < nops; i++ {
		ops[i] = vPick("op", len(c11pOps))
		if ops[i] == 5 || ops[i] == 6 {
			eqKind = true
		}
		if ops[i] >= 7 && ops[i] <= 10 {
			relKind = true
		}
		src += " " + c11pOps[ops[i]] + " " + leaves[i+1]
	}
	// the statement does not say how ==/!= and </>/<=/>= nest among themselves
	vAssume(!(eqKind && relKind))
	full := "set f to transform return " + src + " end"
	vNote("source", full)
	want := c11pParse(leaves, ops)
	got := c11pReturnExpr(full)
	if twin != 0 {
		vFail("TWIN reached the comparison")
	}
	if !c11pSame(want, got) {
		vNote("want", c11pRender(want))
		vFail("C11: expression does not parse with the documented precedence/associativity")
	}
	// fully parenthesised rendering parses to the same tree
	got2 := c11pReturnExpr("set f to transform return " + c11pRender(want) + " end")
	if !c11pSame(want, got2) {
		vFail("C11: fully parenthesised expression parses to a different tree")
	}
}

// ---- two definitions in one source -------------------------------------------------------------------
// Whether a transform or predicate is well typed is a property of that definition alone. The relational
// check needs no typing oracle: a source holding two definitions (which use the same variable names) is
// accepted exactly when each definition is accepted in a source of its own, in both orders.

var c12PairExprs = []string{"'s'", "1", "true", "v", "v + 1", "head v", "v and true", "not v"}
var c12PairFirst = []string{"set v to % return 'x'", "loop set v to % break end return 'x'", "set w to % set v to w return 'x'", "if true then set v to % end return 'x'"}
var c12PairSecond = []string{"return %", "set v to % return %", "if % then return 'a' end return %", "set w to v return %"}

func VerifC12PairCount() int { return len(c12PairFirst) * len(c12PairSecond) }

func c12Fill(sk string) string { return c12FillFrom(sk, c12PairExprs) }

func c12FillFrom(sk string, menu []string) string {
	body := ""
	for i := 0; i < len(sk); i++ {
		if sk[i] == '%' {
			body += menu[vPick("expr", len(menu))]
		} else {
			body += string(sk[i])
		}
	}
	return body
}

func c12Accepts(src string) bool {
	_, err := Compile(src)
	return err == nil
}

func VerifC12Pair(job int) {
	b1 := c12Fill(c12PairFirst[job/len(c12PairSecond)])
	b2 := c12Fill(c12PairSecond[job%len(c12PairSecond)])
	d1 := "set f to transform " + b1 + " end "
	d2 := "set g to transform " + b2 + " end "
	use2 := "replace all any with g"
	if vBool("second definition is a predicate") {
		d2 = "set g to pattern any begin " + b2 + " end "
		use2 = "find all g"
	}
	alone1 := d1 + "replace all any with f"
	alone2 := d2 + use2
	both12 := d1 + d2 + "replace all any with f " + use2
	both21 := d2 + d1 + use2 + " replace all any with f"
	vNote("source", both12)
	ok1, ok2 := c12Accepts(alone1), c12Accepts(alone2)
	for _, both := range []string{both12, both21} {
		if c12Accepts(both) != (ok1 && ok2) {
			vNote("source", both)
			vNote("first alone", alone1)
			vNote("second alone", alone2)
			if ok1 && ok2 {
				vFail("C12: well-typed process code is rejected when another definition precedes or follows it")
			}
			vFail("C12: ill-typed process code is accepted when another definition precedes or follows it")
		}
	}
	if ok1 && ok2 {
		v, _ := Compile(both12)
		v.Run("a1")
		vReach("accepted-and-run")
	}
}
