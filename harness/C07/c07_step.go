package files

import (
	"fmt"
	"io"
	"os"
	"strings"
)

// C07 (inductive step): from an ARBITRARY state of the sliding window that satisfies the
// representation invariant, one Seek or one Read of the real BufferedFile re-establishes the
// invariant and returns the bytes of the file. The file is abstract: its size F is symbolic and its
// byte at offset i is byte(i) (so a wrong offset is visible in the data unless it is off by a
// multiple of 256). Because the pre-state is arbitrary this covers every file size below 2^40 and
// every seek/read history.

func c07Window(F int64, m int64, M int64, c int64) {
	vAssume(F >= 1 && F < (1<<40))
	vAssume(0 <= m && m <= M && M <= F)
	vAssume(M-m <= 4096)
	vAssume(M-m == 4096 || M == F) // the window is full or ends at the end of the file
	vAssume(0 <= c && c <= F)
	vAssume(m <= c && c <= M) // every Seek leaves the offset inside the window (or at its end)
}

func c07Inv(bf *BufferedFile, F int64, what string) {
	m, M := bf.minOffset, bf.maxOffset
	if !(0 <= m && m <= M && M <= F) {
		vNoteInt("newmin", int(m))
		vNoteInt("newmax", int(M))
		vNoteInt("size", int(F))
		vFail(what + ": window bounds violate 0 <= min <= max <= size")
	}
	if !(M-m <= 4096) {
		vFail(what + ": window larger than the buffer")
	}
	if !(M-m == 4096 || M == F) {
		vFail(what + ": window neither full nor ending at the end of the file")
	}
	if !(0 <= bf.currentOffset && bf.currentOffset <= F) {
		vFail(what + ": current offset outside the file")
	}
	if !(m <= bf.currentOffset && bf.currentOffset <= M) {
		vFail(what + ": current offset outside the window")
	}
}

// the buffer holds file[min .. max): checked at one arbitrary (Skolem) position
func c07Content(bf *BufferedFile, what string) {
	j := int64(vInt("j"))
	vAssume(j >= bf.minOffset && j < bf.maxOffset)
	if bf.buffer[j-bf.minOffset] != byte(j) {
		vNoteInt("j", int(j))
		vFail(what + ": buffer does not hold the bytes of the file at the window position")
	}
}

func c07Make(F int64, m int64, M int64, c int64, f *os.File) *BufferedFile {
	// the content part of the invariant: buffer[k] = file[m+k] for k < M-m, arbitrary junk beyond
	junk := vByte("junk")
	return &BufferedFile{file: f, fileSize: F, buffer: vLazyWindow(4096, m, M-m, junk), bufferSize: 4096, minOffset: m, maxOffset: M, currentOffset: c}
}

// native stand-in (the lemma is not replayed natively: its pre-state is not reachable through the API in one step)
func vLazyWindow(n int, base int64, valid int64, junk byte) []byte {
	b := make([]byte, n)
	for k := range b {
		if int64(k) < valid {
			b[k] = byte(base + int64(k))
		} else {
			b[k] = junk
		}
	}
	return b
}

// op 0: Seek(off, SeekStart) with 0 <= off <= F; op 1: Seek(0, SeekCurrent); op 2: Read(p), 1 <= len(p) <= k
func VerifC07Step(op int, k int, twin int) {
	F := int64(vInt("F"))
	m := int64(vInt("min"))
	M := int64(vInt("max"))
	c := int64(vInt("cur"))
	c07Window(F, m, M, c)
	c07Lemma(F, m, c, func() { c07StepBody(F, m, M, c, op, k, twin) })
}

func c07StepBody(F int64, m int64, M int64, c int64, op int, k int, twin int) {
	vNote("source", "BufferedFile step op "+string(rune('0'+op)))
	vNoteInt("F", int(F))
	vNoteInt("min", int(m))
	vNoteInt("max", int(M))
	vNoteInt("cur", int(c))
	f := vfsAbstractFile(F)
	for _, x := range []int64{0, m, M, c, F} {
		vfsAbstractTouch(f, F, x)
	}
	bf := c07Make(F, m, M, c, f)
	if twin != 0 {
		vFail("TWIN reached the step")
	}
	switch op {
	case 0:
		off := int64(vInt("off"))
		vAssume(off >= 0 && off <= F)
		vNoteInt("off", int(off))
		c07Off = off
		vfsAbstractTouch(f, F, off)
		n, err := bf.Seek(off, io.SeekStart)
		if err != nil || n != off || bf.currentOffset != off {
			vFail("Seek(off, SeekStart) does not position at off")
		}
		c07Inv(bf, F, "after Seek")
		if off < F && !(bf.minOffset <= off && off < bf.maxOffset) {
			vFail("after Seek the window does not contain the offset")
		}
		c07Content(bf, "after Seek")
	case 1:
		n, err := bf.Seek(0, io.SeekCurrent)
		if err != nil || n != c || bf.currentOffset != c {
			vFail("Seek(0, SeekCurrent) moved the offset")
		}
		c07Inv(bf, F, "after Seek(0, SeekCurrent)")
		if c < F && !(bf.minOffset <= c && c < bf.maxOffset) {
			vFail("after re-centring the window does not contain the offset")
		}
		c07Content(bf, "after Seek(0, SeekCurrent)")
	case 2:
		ln := 1 + vPick("len", k)
		vAssume(c+int64(ln) <= F) // files.Reader checks the bound before every read
		p := make([]byte, ln)
		n, err := bf.Read(p)
		if err != nil || n != ln {
			vFail("Read within the file does not return len(p) bytes")
		}
		if bf.currentOffset != c+int64(ln) {
			vFail("Read does not advance the offset by len(p)")
		}
		for i := 0; i < ln; i++ {
			if p[i] != byte(c+int64(i)) {
				vNoteInt("i", i)
				vFail("Read returned a byte that is not the byte of the file at that offset")
			}
		}
		c07Inv(bf, F, "after Read")
		c07Content(bf, "after Read")
	}
}

// VerifC07New: NewBufferedFile establishes the invariant for every size F >= 1 and does not crash for F = 0.
func VerifC07New() {
	F := int64(vInt("F"))
	vAssume(F >= 0 && F < (1<<40))
	vNote("source", "NewBufferedFile")
	vNoteInt("F", int(F))
	c07Lemma(F, 0, 0, func() { c07NewBody(F) })
}

func c07NewBody(F int64) {
	f := vfsAbstractFile(F)
	vfsAbstractTouch(f, F, 0)
	vfsAbstractTouch(f, F, F)
	bf := NewBufferedFile(f, F)
	if F == 0 {
		if bf.minOffset != 0 || bf.maxOffset != 0 || bf.currentOffset != 0 {
			vFail("NewBufferedFile on an empty file does not yield an empty window")
		}
		return
	}
	c07Inv(bf, F, "after NewBufferedFile")
	if bf.minOffset != 0 || bf.currentOffset != 0 {
		vFail("NewBufferedFile does not start at offset 0")
	}
	c07Content(bf, "after NewBufferedFile")
}

// VerifC07Reader: files.Reader over the real BufferedFile over the abstract file: Seek(off) then Read(n)
// (or ReadAt(n, off)) returns file[off:off+n], or "" when the range does not lie inside the file.
func VerifC07Reader(useReadAt int, maxLen int) {
	F := int64(vInt("F"))
	vAssume(F >= 1 && F < (1<<40))
	off := vInt("off")
	vAssume(off >= 0 && int64(off) <= F)
	n := vPick("len", maxLen+1)
	vNote("source", "files.Reader over BufferedFile")
	vNoteInt("F", int(F))
	vNoteInt("off", off)
	vNoteInt("len", n)
	f := vfsAbstractFile(F)
	for _, x := range []int64{0, int64(off), F} {
		vfsAbstractTouch(f, F, x)
	}
	r := &Reader{contents: NewBufferedFile(f, F), offset: 0, size: int(F)}
	var got string
	if useReadAt != 0 {
		got = r.ReadAt(n, off)
	} else {
		r.Seek(off)
		got = r.Read(n)
	}
	if n == 0 || int64(off)+int64(n) > F {
		if got != "" {
			vFail("a read that does not lie inside the file returned data")
		}
		return
	}
	if len(got) != n {
		vFail("a read inside the file returned the wrong number of bytes")
	}
	for i := 0; i < n; i++ {
		if got[i] != byte(off+i) {
			vFail("files.Reader returned a byte that is not the byte of the file at that offset")
		}
	}
	// a second read one byte back (anchors) and far back (backtracking) from the new position
	back := vInt("back")
	vAssume(back >= 0 && back <= off)
	vNoteInt("back", back)
	vfsAbstractTouch(f, F, int64(back))
	got2 := r.ReadAt(1, back)
	if int64(back) < F {
		if len(got2) != 1 || got2[0] != byte(back) {
			vFail("a backward read returned a byte that is not the byte of the file at that offset")
		}
	}
}

// ---- boundary-class variant of the inductive step ----
// Same pre-state space, but every quantity that is RELATIVE to the window (offset inside the window,
// window fill, distance from the window end to the end of the file, read length) is one of a finite list
// of boundary classes and therefore concrete on each path, while the ABSOLUTE position of the window in
// the file stays symbolic. The buffer is then an ordinary array of 4096 terms, so the step also works for
// implementations that use copy() and sub-slices of the buffer (which the lazily defined window above
// cannot execute). Classes: offset-in-window {0,1,2047,2048,4094,4095,4096}, bytes after the window
// {0,1,3,2047,2048,2049,5000}, short files (window = whole file) of size {1,2,100,4095}.

var c07InWin = []int64{0, 1, 2047, 2048, 4094, 4095, 4096}
var c07After = []int64{0, 1, 3, 2047, 2048, 2049, 5000}
var c07Short = []int64{1, 2, 100, 4095}

func VerifC07StepClassesCount() int { return len(c07InWin)*len(c07After) + len(c07Short) }

func VerifC07StepClasses(class int, op int, k int) {
	var m, M, F, c int64
	c07ClassState(class, &m, &M, &F, &c)
	c07Lemma(F, m, c, func() { c07ClassesBody(F, m, M, c, op, k) })
}

func c07ClassState(class int, pm *int64, pM *int64, pF *int64, pc *int64) {
	var m, M, F, c int64
	if class < len(c07InWin)*len(c07After) {
		in := c07InWin[class/len(c07After)]
		after := c07After[class%len(c07After)]
		m = int64(vInt("min"))
		vAssume(m >= 0 && m < (1<<40))
		M = m + 4096
		F = M + after
		c = m + in
	} else {
		F = c07Short[class-len(c07InWin)*len(c07After)]
		m, M = 0, F
		c = []int64{0, 1, F / 2, F - 1, F}[vPick("cur", 5)]
	}
	*pm, *pM, *pF, *pc = m, M, F, c
}

func c07ClassesBody(F int64, m int64, M int64, c int64, op int, k int) {
	vNote("source", "BufferedFile step (boundary classes) op "+string(rune('0'+op)))
	vNoteInt("F", int(F))
	vNoteInt("min", int(m))
	vNoteInt("cur", int(c))
	f := vfsAbstractFile(F)
	for _, x := range []int64{0, m, M, c, F} {
		vfsAbstractTouch(f, F, x)
	}
	buf := make([]byte, 4096)
	for i := int64(0); i < M-m; i++ {
		buf[i] = byte(m + i)
	}
	bf := &BufferedFile{file: f, fileSize: F, buffer: buf, bufferSize: 4096, minOffset: m, maxOffset: M, currentOffset: c}
	check := func(what string) {
		c07Inv(bf, F, what)
		// content at the window boundaries and in the middle
		w := bf.maxOffset - bf.minOffset
		for _, j := range []int64{0, 1, 2, 2047, 2048, 4094, 4095} {
			if j < w && bf.buffer[j] != byte(bf.minOffset+j) {
				vNoteInt("j", int(j))
				vFail(what + ": buffer does not hold the bytes of the file at a window position")
			}
		}
	}
	switch op {
	case 0:
		// seek one byte back (anchors), to the start, to an arbitrary earlier/later offset
		off := int64(vInt("off"))
		vAssume(off >= 0 && off <= F)
		c07Off = off
		vfsAbstractTouch(f, F, off)
		n, err := bf.Seek(off, 0)
		if err != nil || n != off || bf.currentOffset != off {
			vFail("Seek(off, SeekStart) does not position at off")
		}
		check("after Seek")
		if off < F && !(bf.minOffset <= off && off < bf.maxOffset) {
			vFail("after Seek the window does not contain the offset")
		}
	case 1:
		ln := 1 + vPick("len", k)
		if c+int64(ln) > F {
			return
		}
		p := make([]byte, ln)
		n, err := bf.Read(p)
		if err != nil || n != ln {
			vFail("Read within the file does not return len(p) bytes")
		}
		if bf.currentOffset != c+int64(ln) {
			vFail("Read does not advance the offset by len(p)")
		}
		for i := 0; i < ln; i++ {
			if p[i] != byte(c+int64(i)) {
				vNoteInt("i", i)
				vFail("Read returned a byte that is not the byte of the file at that offset")
			}
		}
		check("after Read")
	}
}

// ---- the step lemmas are leads; violations are confirmed through the public API ----
// The lemmas start from a constructed window state and assert a representation invariant: both are
// statements about THIS implementation's internals, not about what a caller of BufferedFile can observe.
// Under gosym a failing step ends the path as a failure; in the native replay the failure is only kept when
// a history of public calls (NewBufferedFile, Seek, Read) on a real file of the same size, around the same
// offsets, returns bytes that are not the file's bytes (or an error, a short read, a crash). Otherwise the
// replay passes, and the check reports the lemma as not confirmed (inconclusive), never as a violation.

var c07Off int64 = -1

func c07Lemma(F int64, m int64, c int64, body func()) {
	if vSymbolic() {
		body()
		return
	}
	c07Off = -1
	failed := ""
	func() {
		defer func() {
			if r := recover(); r != nil {
				if _, ok := r.(vAssumeFailed); ok {
					panic(r)
				}
				failed = fmt.Sprint(r)
			}
		}()
		body()
	}()
	if failed == "" {
		return
	}
	if h := c07BlackBox(F, m, c, c07Off); h != "" {
		panic("VERIF-FAIL: " + strings.TrimPrefix(failed, "VERIF-FAIL: ") + " | through the public API: " + h)
	}
	fmt.Println("VLEMMA step fails from the constructed state but no public history around it misreads the file:", failed)
}

// c07BlackBox runs every history of up to three Seeks over the offsets of interest followed by two Reads,
// on a fresh BufferedFile over a real file whose byte at offset i is byte(i) near those offsets.
func c07BlackBox(F int64, m int64, c int64, off int64) (history string) {
	if F <= 0 {
		return ""
	}
	cand := []int64{0, 1, m - 1, m, m + 1, m + 2047, m + 2048, m + 2049, m + 4095, m + 4096, m + 4097, c - 1, c, c + 1,
		F - 4097, F - 4096, F - 4095, F - 2049, F - 2048, F - 2047, F - 2, F - 1, F}
	if off >= 0 {
		cand = append(cand, off-1, off, off+1, off-2048, off+2048, off-4096, off+4096)
	}
	seen := map[int64]bool{}
	S := []int64{}
	for _, x := range cand {
		if x >= 0 && x <= F && !seen[x] {
			seen[x] = true
			S = append(S, x)
		}
	}
	f := vfsAbstractFile(F)
	for _, x := range S {
		vfsAbstractTouch(f, F, x)
	}
	lens := []int{1, 2, 3, 4, 8}
	try := func(seeks []int64, ln int) (bad string) {
		desc := fmt.Sprintf("size %d: NewBufferedFile", F)
		defer func() {
			if r := recover(); r != nil {
				if _, ok := r.(vAssumeFailed); ok {
					panic(r)
				}
				bad = desc + fmt.Sprintf(" panics: %v", r)
			}
		}()
		// NewBufferedFile fills its first window from the descriptor's position: a freshly opened file
		if _, err := f.Seek(0, io.SeekStart); err != nil {
			return ""
		}
		bf := NewBufferedFile(f, F)
		pos := int64(0)
		for _, s := range seeks {
			if s < 0 {
				desc += "; Seek(0,SeekCurrent)"
				n, err := bf.Seek(0, io.SeekCurrent)
				if err != nil || n != pos {
					return desc + fmt.Sprintf(" = (%d,%v), want %d", n, err, pos)
				}
				continue
			}
			desc += fmt.Sprintf("; Seek(%d)", s)
			n, err := bf.Seek(s, io.SeekStart)
			if err != nil || n != s {
				return desc + fmt.Sprintf(" = (%d,%v)", n, err)
			}
			pos = s
		}
		for round := 0; round < 2; round++ {
			if pos+int64(ln) > F {
				return ""
			}
			p := make([]byte, ln)
			desc += fmt.Sprintf("; Read(%d bytes)", ln)
			n, err := bf.Read(p)
			if err != nil || n != ln {
				return desc + fmt.Sprintf(" = (%d,%v)", n, err)
			}
			for i := 0; i < ln; i++ {
				if p[i] != byte(pos+int64(i)) {
					return desc + fmt.Sprintf(" returned byte %d at file offset %d, the file holds %d", p[i], pos+int64(i), byte(pos+int64(i)))
				}
			}
			pos += int64(ln)
		}
		return ""
	}
	withCur := append([]int64{-1}, S...)
	for _, ln := range lens {
		for _, a := range S {
			if b := try([]int64{a}, ln); b != "" {
				return b
			}
			for _, b2 := range withCur {
				if b := try([]int64{a, b2}, ln); b != "" {
					return b
				}
				if ln > 2 {
					continue
				}
				for _, c3 := range withCur {
					if b := try([]int64{a, b2, c3}, ln); b != "" {
						return b
					}
				}
			}
		}
	}
	return ""
}
