package files

// C20 (deep tree): patterns of three segments over trees of depth 3. Entry names are fixed per level
// (level 1: aa, ab; level 2: a, b; level 3: a [, b]); what is symbolic is the kind of every entry (absent,
// regular file, directory with its own symbolic content) and the pattern: each directory segment is a
// symbolic choice among literal and starred spellings that match one or both names of its level, the file
// segment among a literal and '*'. The expected list is the segment-by-segment definition of the property.

type c20Node struct {
	name string
	kind int // 0 absent, 1 file, 2 directory
	kids []*c20Node
}

func c20Build(path string, level int, depth int, wide int) []*c20Node {
	var names []string
	switch level {
	case 1:
		names = []string{"aa", "ab"}
	case 2:
		names = []string{"a", "b"}
	default:
		names = []string{"a"}
		if wide != 0 {
			names = []string{"a", "b"}
		}
	}
	var out []*c20Node
	for _, nm := range names {
		kinds := 3
		if level == depth {
			kinds = 2
		}
		n := &c20Node{name: nm, kind: vPick("kind of "+path+nm, kinds)}
		switch n.kind {
		case 1:
			vfsWrite(path+nm, "x")
		case 2:
			vfsMkdir(path + nm)
			n.kids = c20Build(path+nm+"/", level+1, depth, wide)
		}
		out = append(out, n)
	}
	return out
}

func c20Describe(ns []*c20Node) string {
	s := ""
	for _, n := range ns {
		switch n.kind {
		case 1:
			s += n.name + " "
		case 2:
			s += n.name + "/{" + c20Describe(n.kids) + "} "
		}
	}
	return s
}

func c20Expect(ns []*c20Node, path string, segs []string, out *[]string) {
	for _, n := range ns {
		if len(segs) == 1 {
			if n.kind == 1 && refGlob(segs[0], n.name) {
				*out = append(*out, path+n.name)
			}
		} else if n.kind == 2 && refGlob(segs[0], n.name) {
			c20Expect(n.kids, path+n.name+"/", segs[1:], out)
		}
	}
}

func VerifC20Deep(nseg int, wide int) {
	vfsInit()
	defer vfsDone()
	root := c20Build("", 1, 3, wide)
	d1 := []string{"aa", "ab", "a*", "*b", "a*b"}
	d2 := []string{"a", "b", "a*", "*b"}
	f3 := []string{"a", "*", "*a"}
	var segs []string
	switch nseg {
	case 3:
		segs = []string{d1[vPick("seg1", len(d1))], d2[vPick("seg2", len(d2))], f3[vPick("seg3", len(f3))]}
	case 2:
		segs = []string{d1[vPick("seg1", len(d1))], []string{"a", "b", "*", "*a"}[vPick("seg2", 4)]}
	default:
		segs = []string{[]string{"aa", "a*", "*", "*b"}[vPick("seg1", 4)]}
	}
	pattern := segs[0]
	for _, s := range segs[1:] {
		pattern += "/" + s
	}
	// the same pattern written as an absolute path below the working directory selects the same files
	absolute := vBool("absolute pattern")
	vNote("source", "pattern over a model directory tree of depth 3")
	vNote("pattern", pattern)
	vNote("tree", c20Describe(root))
	var got []string
	if absolute {
		cwd := vfsCwd()
		vNote("absolute", "the pattern is prefixed with the working directory")
		raw := ParsePath(cwd + "/" + pattern).GetFileList(".")
		// spell the results relative to the working directory (doubled slashes are the same path)
		for _, g := range raw {
			clean := ""
			for i := 0; i < len(g); i++ {
				if g[i] == '/' && i > 0 && g[i-1] == '/' {
					continue
				}
				clean += string(g[i])
			}
			if len(clean) > len(cwd) && clean[:len(cwd)] == cwd && clean[len(cwd)] == '/' {
				got = append(got, "./"+clean[len(cwd)+1:])
			} else {
				got = append(got, clean)
			}
		}
	} else {
		got = ParsePath(pattern).GetFileList(".")
	}
	var want []string
	c20Expect(root, "./", segs, &want)
	gotS, wantS := "", ""
	for _, g := range got {
		gotS += g + " "
	}
	for _, w := range want {
		wantS += w + " "
	}
	vNote("got", gotS)
	vNote("want", wantS)
	for i := range got {
		for j := i + 1; j < len(got); j++ {
			if got[i] == got[j] {
				vFail("a file is listed twice")
			}
		}
		found := false
		for _, w := range want {
			if w == got[i] {
				found = true
			}
		}
		if !found {
			vFail("the file list contains a path the pattern does not describe (or a directory)")
		}
	}
	for _, w := range want {
		found := false
		for _, g := range got {
			if g == w {
				found = true
			}
		}
		if !found {
			vFail("a file that matches the pattern is missing from the file list")
		}
	}
}
