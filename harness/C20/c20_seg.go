package files

// C20 (segment matcher, white box): pathMatches equals the reference definition.

func VerifC20Seg(plen int, tlen int, twin int) {
	pattern := c20Str("pattern", plen)
	target := c20Str("name", tlen)
	vNote("source", "pattern length "+string(rune('0'+plen))+", name length "+string(rune('0'+tlen)))
	vNote("pattern", pattern)
	vNote("name", target)
	// the target itself contains no star (file names with a literal '*' are outside the small alphabet)
	for i := 0; i < len(target); i++ {
		vAssume(target[i] != '*')
	}
	want := refGlob(pattern, target)
	got := pathMatches(target, pattern)
	vReach("compared")
	if twin != 0 {
		vFail("TWIN reached the comparison")
	}
	if got != want {
		if want {
			vFail("a file name that matches the pattern is not selected")
		}
		vFail("a file name that does not match the pattern is selected")
	}
}
