package files

// C20 (segment matcher): pathMatches equals "`*` stands for any run of characters".

func refGlob(p string, t string) bool {
	if len(p) == 0 {
		return len(t) == 0
	}
	if p[0] == '*' {
		// any run of characters, including none
		for k := 0; k <= len(t); k++ {
			if refGlob(p[1:], t[k:]) {
				return true
			}
		}
		return false
	}
	if len(t) == 0 || t[0] != p[0] {
		return false
	}
	return refGlob(p[1:], t[1:])
}

func c20Str(label string, n int) string {
	b := make([]byte, n)
	for i := range b {
		b[i] = vByte(label)
		vAssume(b[i] >= 0x21 && b[i] < 0x7f && b[i] != '/')
	}
	return string(b)
}

func VerifC20Seg(plen int, tlen int, twin int) {
	pattern := c20Str("pattern", plen)
	target := c20Str("name", tlen)
	vNote("source", "pattern length "+string(rune('0'+plen))+", name length "+string(rune('0'+tlen)))
	vNote("pattern", pattern)
	vNote("name", target)
	// the target itself contains no star (file names with a literal '*' are outside the small alphabet)
	for i := 0; i < len(target); i++ {
		vAssume(target[i] != '*')
	}
	want := refGlob(pattern, target)
	got := pathMatches(target, pattern)
	vReach("compared")
	if twin != 0 {
		vFail("TWIN reached the comparison")
	}
	if got != want {
		if want {
			vFail("a file name that matches the pattern is not selected")
		}
		vFail("a file name that does not match the pattern is selected")
	}
}
