package files

// C20: reference definition of a pattern segment ("`*` stands for any run of characters") and the
// black-box segment check through ParsePath / GetFileList.

func refGlob(p string, t string) bool {
	if len(p) == 0 {
		return len(t) == 0
	}
	if p[0] == '*' {
		// any run of characters, including none
		for k := 0; k <= len(t); k++ {
			if refGlob(p[1:], t[k:]) {
				return true
			}
		}
		return false
	}
	if len(t) == 0 || t[0] != p[0] {
		return false
	}
	return refGlob(p[1:], t[1:])
}

func c20Str(label string, n int) string {
	b := make([]byte, n)
	for i := range b {
		b[i] = vByte(label)
		vAssume(b[i] >= 0x21 && b[i] < 0x7f && b[i] != '/')
	}
	return string(b)
}

// VerifC20SegFS: the same comparison through the exported entry points only: a directory holding one file
// whose name is symbolic; the file is listed exactly when its name matches the (symbolic) pattern.
func VerifC20SegFS(plen int, tlen int) {
	pattern := c20Str("pattern", plen)
	target := c20Str("name", tlen)
	vNote("source", "one file with a symbolic name, pattern length "+string(rune('0'+plen))+", name length "+string(rune('0'+tlen)))
	vNote("pattern", pattern)
	vNote("name", target)
	for i := 0; i < len(target); i++ {
		vAssume(target[i] != '*')
	}
	vAssume(target != "." && target != "..")
	vfsInit()
	defer vfsDone()
	vfsWrite(target, "x")
	want := refGlob(pattern, target)
	got := ParsePath(pattern).GetFileList(".")
	vReach("compared")
	if want {
		if len(got) != 1 || got[0] != "./"+target {
			vFail("a file name that matches the pattern is not selected")
		}
	} else if len(got) != 0 {
		vFail("a file name that does not match the pattern is selected")
	}
}
