package files

// C20 (tree): ParsePath(p).GetFileList(dir) over the model file system selects exactly the regular
// files whose path matches the pattern segment by segment.

func c20Name(label string, alphabetStar bool) string {
	n := 1
	if alphabetStar {
		n = 1 + vPick(label+".len", 2)
	}
	b := make([]byte, n)
	for i := range b {
		b[i] = vByte(label)
		if alphabetStar {
			vAssume(b[i] == 'a' || b[i] == 'b' || b[i] == '*')
		} else {
			vAssume(b[i] == 'a' || b[i] == 'b')
		}
	}
	return string(b)
}

func c20AllStars(s string) bool {
	for i := 0; i < len(s); i++ {
		if s[i] != '*' {
			return false
		}
	}
	return true
}

type c20Entry struct {
	path  string
	name  string
	isDir bool
	kids  []c20Entry
}

func VerifC20Tree(depth int, twin int) {
	vfsInit()
	defer vfsDone()
	// root entries
	var root []c20Entry
	seen := map[string]bool{}
	for i := 0; i < 2; i++ {
		name := c20Name("entry", false)
		if seen[name] {
			continue
		}
		seen[name] = true
		e := c20Entry{name: name, path: name}
		if depth >= 2 && vBool("isdir") {
			e.isDir = true
			vfsMkdir(e.path)
			seen2 := map[string]bool{}
			for j := 0; j < 2; j++ {
				kn := c20Name("child", false)
				if seen2[kn] {
					continue
				}
				seen2[kn] = true
				k := c20Entry{name: kn, path: name + "/" + kn}
				if vBool("childisdir") {
					k.isDir = true
					vfsMkdir(k.path)
				} else {
					vfsWrite(k.path, "x")
				}
				e.kids = append(e.kids, k)
			}
		} else {
			vfsWrite(e.path, "x")
		}
		root = append(root, e)
	}
	// pattern of 1 or 2 segments
	file := c20Name("patfile", true)
	pattern := file
	dirseg := ""
	if depth >= 2 && vBool("twosegments") {
		dirseg = c20Name("patdir", true)
		vAssume(!c20AllStars(dirseg)) // star-only directory segments deliberately also match zero levels (excluded)
		pattern = dirseg + "/" + file
	}
	vNote("source", "pattern over a model directory tree")
	vNote("pattern", pattern)
	desc := ""
	for _, e := range root {
		desc += e.path
		if e.isDir {
			desc += "/{"
			for _, k := range e.kids {
				desc += k.name
				if k.isDir {
					desc += "/"
				}
				desc += " "
			}
			desc += "}"
		}
		desc += " "
	}
	vNote("tree", desc)
	got := ParsePath(pattern).GetFileList(".")
	if twin != 0 {
		vFail("TWIN reached the comparison")
	}
	// expected set
	var want []string
	if dirseg == "" {
		for _, e := range root {
			if !e.isDir && refGlob(file, e.name) {
				want = append(want, "./"+e.path)
			}
		}
	} else {
		for _, e := range root {
			if e.isDir && refGlob(dirseg, e.name) {
				for _, k := range e.kids {
					if !k.isDir && refGlob(file, k.name) {
						want = append(want, "./"+k.path)
					}
				}
			}
		}
	}
	gotS := ""
	for _, g := range got {
		gotS += g + " "
	}
	wantS := ""
	for _, w := range want {
		wantS += w + " "
	}
	vNote("got", gotS)
	vNote("want", wantS)
	// no duplicates, nothing extra, nothing missing
	for i := range got {
		for j := i + 1; j < len(got); j++ {
			if got[i] == got[j] {
				vFail("a file is listed twice")
			}
		}
		found := false
		for _, w := range want {
			if w == got[i] {
				found = true
			}
		}
		if !found {
			vFail("the file list contains a path the pattern does not describe (or a directory)")
		}
	}
	for _, w := range want {
		found := false
		for _, g := range got {
			if g == w {
				found = true
			}
		}
		if !found {
			vFail("a file that matches the pattern is missing from the file list")
		}
	}
}
