package libvore

import (
	"github.com/jmeaster30/vore/libvore/ast"
	"github.com/jmeaster30/vore/libvore/bytecode"
)

// C08 (generator + type checker): every AST the parser can return compiles to a program or an error.

func VerifC08GenCount() int { return ast.VTokenPrefixCount() }

func VerifC08Gen(prefix int, n int) {
	pre := ast.VTokenPrefix(prefix)
	tokens := []*ast.Token{}
	for _, t := range pre {
		tokens = append(tokens, ast.VTok(t, "1"))
	}
	for i := 0; i < n; i++ {
		t := vRange("tokentype", 2, ast.VMaxTokenType())
		vNoteInt("tok"+vItoa(i), t)
		tokens = append(tokens, ast.VTok(ast.TokenType(t), "1"))
	}
	tokens = append(tokens, ast.VTok(ast.EOF, ""))
	vNote("source", "token prefix "+vItoa(prefix)+" + symbolic tail")
	cmds, err := ast.VParseTokens(tokens)
	if err != nil {
		return
	}
	vReach("parsed")
	bc, gerr := bytecode.GenerateBytecode(ast.VMakeAst(cmds))
	if gerr != nil {
		if bc != nil {
			vFail("GenerateBytecode returned both a program and an error")
		}
		_ = gerr.Error()
		return
	}
	if bc == nil {
		vFail("GenerateBytecode returned neither a program nor an error")
	}
	vReach("generated")
}
