package ast

// Exported shims (overlay only): drive the unexported parser from harnesses in other packages.

func VParseTokens(tokens []*Token) ([]AstCommand, error) { return parse(tokens) }

func VMakeAst(cmds []AstCommand) *Ast { return &Ast{cmds} }

func VTokenPrefix(i int) []TokenType { return c08TokenPrefixes[i] }

func VTokenPrefixCount() int { return len(c08TokenPrefixes) }

func VMaxTokenType() int { return c08MaxTokenType }

func VTok(t TokenType, lexeme string) *Token { return c08Tok(t, lexeme) }
