package ast

import "strings"

// C08 (lexer): any byte string yields tokens ending in EOF, or an error; never a panic or a hang.

func c08CheckTokens(tokens []*Token, err error) {
	if err != nil {
		if len(tokens) != 0 {
			vFail("lexer returned both an error and tokens")
		}
		_ = err.Error()
		return
	}
	if len(tokens) == 0 || tokens[len(tokens)-1].TokenType != EOF {
		vFail("token list does not end with EOF")
	}
	for i := 0; i < len(tokens)-1; i++ {
		if tokens[i] == nil {
			vFail("nil token")
		}
		if tokens[i].TokenType == EOF || tokens[i].TokenType == ERROR {
			vFail("EOF or ERROR token before the end of the token list")
		}
	}
}

// VerifC08Lex: n arbitrary bytes (all 256 values).
func VerifC08Lex(n int) {
	b := make([]byte, n)
	for i := range b {
		b[i] = vByte("src")
	}
	src := string(b)
	vNote("source", src)
	tokens, err := initLexer(strings.NewReader(src)).getTokens()
	vReach("returned")
	c08CheckTokens(tokens, err)
}

// corpus prefixes: every concrete prefix of these sources followed by n symbolic bytes reaches the
// deep lexer states (inside strings, escapes, comments, regex literals, operators) cheaply.
var c08LexCorpus = []string{
	"find all 'ab\\", "find all \"a\\x4", "find all @/a[b]", "find all 'a' --", "find all 'a' --(", "find all 'a' --( c )-", "find all 'a' -", "set x to transform return 1 !",
	"set x to transform return 1 <", "set x to transform return 1 :", "find all 12", "find all ab1", "find all 'a' = ", "find all @", "find all @/",
}

func VerifC08LexCorpusCount() int { return len(c08LexCorpus) }

func VerifC08LexCorpus(i int, n int) {
	b := make([]byte, n)
	for j := range b {
		b[j] = vByte("src")
	}
	src := c08LexCorpus[i] + string(b)
	vNote("source", src)
	tokens, err := initLexer(strings.NewReader(src)).getTokens()
	vReach("returned")
	c08CheckTokens(tokens, err)
}
