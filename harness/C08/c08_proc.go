package libvore

// C08 (process code through Compile): statement skeletons whose holes are VARIABLES, not expressions —
// assignments between variables and built-ins of different types inside loops, conditionals and nested
// loops. Programs that re-type a variable are legal input for Compile (they may be rejected, they must not
// hang or crash it), and the checker's treatment of loop bodies is where its own loops are.

var c08ProcVars = []string{"t", "u", "match", "matchLength", "'s'", "1"}
var c08ProcSkeletons = []string{
	"loop set A to B set B to C set C to A break end return 'x'",
	"loop set A to B set B to A break end return 'x'",
	"set A to B loop set B to C set C to A break end return 'x'",
	"loop loop set A to B break end set B to C set C to A break end return 'x'",
	"loop if true then set A to B else set B to C end set C to A break end return 'x'",
	"loop set A to B + C set B to A break end return 'x'",
	"if true then set A to B end loop set B to C set C to A break end return A",
}

func VerifC08ProcCount() int { return len(c08ProcSkeletons) * 2 }

func VerifC08Proc(job int) {
	sk := c08ProcSkeletons[job/2]
	pick := func(label string, assignable bool) string {
		n := len(c08ProcVars)
		if assignable {
			n = 4
		}
		return c08ProcVars[vPick(label, n)]
	}
	// a name on the left of `set` must be a variable; on the right it may also be a literal
	a, b, c := pick("A", true), pick("B", true), pick("C", true)
	br := pick("B on the right", false)
	body := ""
	for i := 0; i < len(sk); i++ {
		switch sk[i] {
		case 'A':
			body += a
		case 'B':
			if i >= 3 && sk[i-3:i] == "to " {
				body += br
			} else {
				body += b
			}
		case 'C':
			body += c
		default:
			body += string(sk[i])
		}
	}
	src := "set f to transform " + body + " end replace all any with f"
	if job%2 == 1 {
		src = "set p to pattern any begin " + body + " end find all p"
	}
	vNote("source", src)
	v, err := Compile(src)
	if err != nil {
		_ = err.Error()
		if v != nil {
			vFail("Compile returned both a program and an error")
		}
		return
	}
	if v == nil {
		vFail("Compile returned neither a program nor an error")
	}
	vReach("compiled")
}
