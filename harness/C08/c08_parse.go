package ast

import (
	"fmt"
	"strings"

	"github.com/jmeaster30/vore/libvore/ds"
)

// C08 (parser, regex sub-parser): every token sequence the lexer can produce and every regex body
// yields commands or an error; never a panic, never an AST with holes.

const c08MaxTokenType = int(FALSE)

// c08Tok builds a token the way the lexer does (position ranges always set).
func c08Tok(t TokenType, lexeme string) *Token {
	return &Token{TokenType: t, Lexeme: lexeme, Offset: ds.NewRange(0, 1), Line: ds.NewRange(1, 1), Column: ds.NewRange(1, 2)}
}

func c08Hole(msg string) {
	vFail("parse returned success with a hole in the tree: " + msg)
}

func c08WalkExprs(es []AstExpression) {
	for _, e := range es {
		c08WalkExpr(e)
	}
}

func c08WalkExpr(e AstExpression) {
	switch x := e.(type) {
	case nil:
		c08Hole("nil expression")
	case *AstLoop:
		if x == nil {
			c08Hole("nil *AstLoop")
		}
		c08WalkExpr(x.Body)
	case *AstBranch:
		if x == nil {
			c08Hole("nil *AstBranch")
		}
		c08WalkLit(x.Left)
		c08WalkExpr(x.Right)
	case *AstDec:
		if x == nil {
			c08Hole("nil *AstDec")
		}
		c08WalkLit(x.Body)
	case *AstSub:
		if x == nil {
			c08Hole("nil *AstSub")
		}
		c08WalkExprs(x.Body)
	case *AstList:
		if x == nil {
			c08Hole("nil *AstList")
		}
		for _, c := range x.Contents {
			switch y := c.(type) {
			case nil:
				c08Hole("nil listable")
			case *AstString:
				if y == nil {
					c08Hole("nil *AstString in list")
				}
			case *AstCharacterClass:
				if y == nil {
					c08Hole("nil *AstCharacterClass in list")
				}
			case *AstRange:
				if y == nil || y.From == nil || y.To == nil {
					c08Hole("nil range end")
				}
			}
		}
	case *AstPrimary:
		if x == nil {
			c08Hole("nil *AstPrimary")
		}
		c08WalkLit(x.Literal)
	}
}

func c08WalkLit(l AstLiteral) {
	switch x := l.(type) {
	case nil:
		c08Hole("nil literal")
	case *AstString:
		if x == nil {
			c08Hole("nil *AstString")
		}
	case *AstSubExpr:
		if x == nil {
			c08Hole("nil *AstSubExpr")
		}
		c08WalkExprs(x.Body)
	case *AstVariable:
		if x == nil {
			c08Hole("nil *AstVariable")
		}
	case *AstCharacterClass:
		if x == nil {
			c08Hole("nil *AstCharacterClass")
		}
	}
}

func c08WalkStmts(ss []AstProcessStatement) {
	for _, s := range ss {
		switch x := s.(type) {
		case nil:
			c08Hole("nil statement")
		case *AstProcessSet:
			if x == nil || x.Expr == nil {
				c08Hole("set without expression")
			}
		case *AstProcessReturn:
			if x == nil || x.Expr == nil {
				c08Hole("return without expression")
			}
		case *AstProcessIf:
			if x == nil || x.Condition == nil {
				c08Hole("if without condition")
			}
			c08WalkStmts(x.TrueBody)
			c08WalkStmts(x.FalseBody)
		case *AstProcessDebug:
			if x == nil || x.Expr == nil {
				c08Hole("debug without expression")
			}
		case *AstProcessLoop:
			if x == nil {
				c08Hole("nil loop")
			}
			c08WalkStmts(x.Body)
		}
	}
}

func c08WalkCommands(cs []AstCommand) {
	for _, c := range cs {
		switch x := c.(type) {
		case nil:
			c08Hole("nil command")
		case *AstFind:
			if x == nil {
				c08Hole("nil *AstFind")
			}
			c08WalkExprs(x.Body)
		case *AstReplace:
			if x == nil {
				c08Hole("nil *AstReplace")
			}
			c08WalkExprs(x.Body)
			for _, a := range x.Result {
				switch y := a.(type) {
				case nil:
					c08Hole("nil atom")
				case *AstString:
					if y == nil {
						c08Hole("nil *AstString atom")
					}
				case *AstVariable:
					if y == nil {
						c08Hole("nil *AstVariable atom")
					}
				}
			}
		case *AstSet:
			if x == nil || x.Body == nil {
				c08Hole("set without body")
			}
			switch b := x.Body.(type) {
			case *AstSetPattern:
				if b == nil {
					c08Hole("nil *AstSetPattern")
				}
				c08WalkExprs(b.Pattern)
				c08WalkStmts(b.Body)
			case *AstSetTransform:
				if b == nil {
					c08Hole("nil *AstSetTransform")
				}
				c08WalkStmts(b.Statements)
			case *AstSetMatches:
				if b == nil || b.Command == nil {
					c08Hole("set matches without command")
				}
			}
		}
	}
}

func c08TokenName(t TokenType) string {
	defer func() { recover() }()
	return t.PP()
}

// VerifC08Parse: prefix of `pre` concrete tokens (by type code) followed by n tokens whose TokenType is
// symbolic over all token types, then EOF — the shape the lexer guarantees.
func VerifC08Parse(prefix int, n int) {
	pre := c08TokenPrefixes[prefix]
	tokens := []*Token{}
	desc := ""
	for _, t := range pre {
		tokens = append(tokens, c08Tok(t, "1"))
	}
	for i := 0; i < n; i++ {
		t := vRange("tokentype", 2, c08MaxTokenType)
		tokens = append(tokens, c08Tok(TokenType(t), "1"))
	}
	tokens = append(tokens, c08Tok(EOF, ""))
	if !vSymbolic() {
		// native replay: through the source text and the real lexer, the way a caller reaches the parser
		c08ViaSource(tokens)
		return
	}
	for _, t := range pre {
		desc += c08TokenName(t) + " "
	}
	vNote("source", "tokens: "+desc+"+ symbolic tail")
	for i := len(pre); i < len(tokens)-1; i++ {
		vNoteInt("tok"+string(rune('0'+i)), int(tokens[i].TokenType))
	}
	cmds, err := parse(tokens)
	vReach("returned")
	if err != nil {
		if len(cmds) != 0 {
			vFail("parse returned both commands and an error")
		}
		_ = err.Error()
		return
	}
	vReach("accepted")
	c08WalkCommands(cmds)
}

var c08TokenPrefixes = [][]TokenType{
	{},
	{FIND, ALL},
	{FIND, ALL, STRING},
	{FIND, ALL, AT, LEAST, NUMBER},
	{FIND, ALL, AT, LEAST, NUMBER, STRING},
	{FIND, ALL, BETWEEN, NUMBER, AND, NUMBER},
	{FIND, ALL, EXACTLY, NUMBER, STRING},
	{FIND, ALL, MAYBE},
	{FIND, ALL, IN, STRING},
	{FIND, ALL, IN, STRING, COMMA},
	{FIND, ALL, NOT},
	{FIND, ALL, OPENPAREN},
	{FIND, ALL, OPENCURLY, STRING},
	{FIND, ALL, OPENCURLY, STRING, CLOSECURLY},
	{FIND, ALL, STRING, OR},
	{FIND, ALL, STRING, EQUAL},
	{FIND, SKIP, NUMBER},
	{REPLACE, ALL, STRING, WITH},
	{REPLACE, ALL, STRING},
	{SET, IDENTIFIER, TO},
	{SET, IDENTIFIER, TO, PATTERN, STRING},
	{SET, IDENTIFIER, TO, PATTERN, STRING, BEGIN},
	{SET, IDENTIFIER, TO, TRANSFORM},
	{SET, IDENTIFIER, TO, TRANSFORM, RETURN},
	{SET, IDENTIFIER, TO, TRANSFORM, RETURN, NUMBER},
	{SET, IDENTIFIER, TO, TRANSFORM, IF, TRUE, THEN},
	{SET, IDENTIFIER, TO, TRANSFORM, IF, TRUE, THEN, BREAK, ELSE},
	{SET, IDENTIFIER, TO, TRANSFORM, LOOP},
	{SET, IDENTIFIER, TO, TRANSFORM, SET, IDENTIFIER, TO},
	{SET, IDENTIFIER, TO, TRANSFORM, RETURN, OPENPAREN, NUMBER},
	{SET, IDENTIFIER, TO, TRANSFORM, RETURN, NOT},
	{SET, IDENTIFIER, TO, MATCHES},
	{FIND, ALL, WHOLE},
	{FIND, ALL, LINE},
	{FIND, ALL, CASELESS},
	{FIND, ALL, STRING, FIND},
}

func VerifC08ParsePrefixCount() int { return len(c08TokenPrefixes) }

// VerifC08Regex: the regex sub-parser on a REGEXP token whose body is n arbitrary bytes (1..0x7f).
func VerifC08Regex(prefix int, n int) {
	b := make([]byte, n)
	for i := range b {
		b[i] = vByte("re")
		vAssume(b[i] >= 1 && b[i] < 0x80)
	}
	body := c08RegexPrefixes[prefix] + string(b)
	vNote("source", "@/"+body+"/")
	if !vSymbolic() {
		// native replay through the source text (see c08ViaSource)
		src := "find all @/" + body + "/"
		toks, lerr := initLexer(strings.NewReader(src)).getTokens()
		ok := lerr == nil
		var core []*Token
		for _, t := range toks {
			if t.TokenType != WS && t.TokenType != COMMENT && t.TokenType != EOF {
				core = append(core, t)
			}
		}
		if !ok || len(core) != 3 || core[2].TokenType != REGEXP || core[2].Lexeme != body {
			fmt.Printf("VSOURCE the regex body cannot be spelled in a source (%q)\n", src)
			return
		}
		fmt.Printf("VSOURCE %q\n", src)
		a, perr := ParseReader(strings.NewReader(src))
		if perr != nil {
			_ = perr.Error()
			return
		}
		c08WalkCommands(a.Commands())
		return
	}
	tokens := []*Token{c08Tok(FIND, "find"), c08Tok(ALL, "all"), c08Tok(REGEXP, body), c08Tok(EOF, "")}
	cmds, err := parse(tokens)
	vReach("returned")
	if err != nil {
		_ = err.Error()
		return
	}
	c08WalkCommands(cmds)
}

var c08RegexPrefixes = []string{"", "a", "(", "(a", "(?", "(?<n", "[", "[a", "[a-", "a{", "a{1", "a{1,", "a{1,2", "\\", "\\k", "\\k<n", "a|", "(a)|", "(?:a", "[^", "a*", "a+?", "(a)\\1", "(?<n>a)\\k<n"}

func VerifC08RegexPrefixCount() int { return len(c08RegexPrefixes) }

// ---- native confirmation through the source ----
// The token-level harness hands the parser token lists directly. The property is about source texts, and
// a parser may rely on what the lexer guarantees, so a token-level failure is only a lead: the native replay
// spells the token list as a source text, checks that the real lexer turns it back into the same list
// (modulo blanks and comments), and runs the real ParseReader on it. Only a crash, a hang or a hole seen
// there confirms the lead.

var c08Spelling = map[TokenType]string{WS: " ", COMMENT: "--(c)--", IDENTIFIER: "x", NUMBER: "1", STRING: "'1'", REGEXP: "@/1/",
	EQUAL: "=", COLONEQ: ":=", COMMA: ",", OPENPAREN: "(", CLOSEPAREN: ")", OPENCURLY: "{", CLOSECURLY: "}", PLUS: "+", MINUS: "-",
	MULT: "*", DIV: "/", LESS: "<", GREATER: ">", LESSEQ: "<=", GREATEREQ: ">=", DEQUAL: "==", NEQUAL: "!=", MOD: "%"}

func c08ViaSource(tokens []*Token) {
	src := ""
	var want []TokenType
	for _, t := range tokens {
		if t.TokenType == EOF {
			break
		}
		sp, ok := c08Spelling[t.TokenType]
		if !ok {
			sp = strings.ToLower(t.TokenType.PP())
		}
		src += sp + " "
		if t.TokenType != WS && t.TokenType != COMMENT {
			want = append(want, t.TokenType)
		}
	}
	toks, err := initLexer(strings.NewReader(src)).getTokens()
	if err != nil {
		fmt.Printf("VSOURCE the token list cannot be spelled as a source (%q does not lex)\n", src)
		return
	}
	var got []TokenType
	for _, t := range toks {
		if t.TokenType != WS && t.TokenType != COMMENT && t.TokenType != EOF {
			got = append(got, t.TokenType)
		}
	}
	same := len(got) == len(want)
	for i := 0; same && i < len(got); i++ {
		same = got[i] == want[i]
	}
	if !same {
		fmt.Printf("VSOURCE the token list cannot be spelled as a source (%q lexes to other tokens)\n", src)
		return
	}
	fmt.Printf("VSOURCE %q\n", src)
	a, perr := ParseReader(strings.NewReader(src))
	if perr != nil {
		_ = perr.Error()
		return
	}
	c08WalkCommands(a.Commands())
}
