package libvore

import (
	"github.com/jmeaster30/vore/libvore/engine"
)

// C06: replace output is the exact splice; each mode touches only the file it may.
// C07 (pipeline part): searching a file equals searching its bytes in memory.

var c06Programs = []string{
	"replace all 'a' with 'xyz'", // longer
	"replace all 'ab' with 'x'",  // shorter
	"replace all 'a' with ''",    // empty replacement... (an empty with item)
	"replace all any with 'q'",   // adjacent matches
	"replace all at least 1 'a' with '<' value '>'",
	"replace all 'a' = x 'b' with x x",
	"replace all digit with matchNumber '.'",
	"replace top 1 'a' with 'b'",
	"replace skip 1 'a' with 'bb'",
	"replace all 'zz' with 'y'", // usually zero matches
	"replace all line start any with '#'",
	"find all 'a'",
	"find all any",
	"set f to transform return match + match end replace all letter with f",
}

func VerifC06Count() int { return len(c06Programs) }

func c06Splice(content string, ms engine.Matches) string {
	out := ""
	last := 0
	for _, m := range ms {
		out += content[last:m.Offset.Start]
		out += m.Replacement.GetValueOrDefault("")
		last = m.Offset.End
	}
	return out + content[last:]
}

// mode: 0 OVERWRITE, 2 NEW, 3 NOTHING (symbolic choice inside)
func VerifC06(prog int, T int, twin int) {
	src := c06Programs[prog]
	v, err := Compile(src)
	if err != nil {
		vFail("harness: program does not compile: " + src)
	}
	isReplace := len(src) >= 7 && src[0:7] != "find al" && src[0:4] != "find"
	if src[0:3] == "set" {
		isReplace = true
	}
	content := vText("content", 1, T, true)
	stale := vBool("stale .vored present")
	staleContent := "OLD"
	modeSel := vPick("mode", 3)
	modes := []engine.ReplaceMode{engine.NOTHING, engine.NEW, engine.OVERWRITE}
	mode := modes[modeSel]
	vNote("source", src)
	vNote("content", content)
	vNote("mode", mode.String())
	vfsInit()
	defer vfsDone()
	vfsWrite("f", content)
	vfsWrite("other", "untouched")
	if stale {
		vfsWrite("f.vored", staleContent)
	}
	before := vfsCount()
	ms := v.RunFiles([]string{"f"}, mode, false)
	vReach("ran")
	if twin != 0 {
		vFail("TWIN reached the assertions")
	}
	fNow, fOk := vfsRead("f")
	vNow, vOk := vfsRead("f.vored")
	oNow, _ := vfsRead("other")
	if !fOk {
		vFail("the searched file disappeared")
	}
	if oNow != "untouched" {
		vFail("an unrelated file was modified")
	}
	expected := c06Splice(content, ms)
	vNote("expected", expected)
	unchangedStale := (stale && vOk && vNow == staleContent) || (!stale && !vOk)
	if !isReplace {
		// find commands never modify any file
		if fNow != content || !unchangedStale || vfsCount() != before {
			vFail("a find command modified the file system")
		}
		return
	}
	switch mode {
	case engine.NOTHING:
		if fNow != content || !unchangedStale || vfsCount() != before {
			vNote("fNow", fNow)
			vFail("mode NOTHING changed a file")
		}
	case engine.NEW:
		if fNow != content {
			vFail("mode NEW modified the searched file")
		}
		if !vOk || vNow != expected {
			vNote("vored", vNow)
			vFail("mode NEW: <file>.vored is not the exact splice")
		}
		wantCount := before
		if !stale {
			wantCount++
		}
		if vfsCount() != wantCount {
			vFail("mode NEW created another file")
		}
	case engine.OVERWRITE:
		if fNow != expected {
			vNote("fNow", fNow)
			vFail("mode OVERWRITE: the searched file is not the exact splice")
		}
		if !unchangedStale || vfsCount() != before {
			vFail("mode OVERWRITE touched another file")
		}
	}
}

// VerifC07Run: RunFiles on a file vs Run on the same bytes: all Match fields equal.
func VerifC07Run(prog int, T int, ascii int, twin int) {
	src := c07Programs[prog]
	v, err := Compile(src)
	if err != nil {
		vFail("harness: program does not compile: " + src)
	}
	content := vText("content", 0, T, ascii != 0)
	vNote("source", src)
	vNote("content", content)
	vfsInit()
	defer vfsDone()
	vfsWrite("f", content)
	inMem := v.Run(content)
	// the same file may be named twice, and the run may also write <file>.vored (mode NEW): neither changes
	// what is found
	files := []string{"f"}
	// (for several commands the order of the results across files is not something the property fixes)
	if prog < c07FirstMulti && vBool("file listed twice") {
		files = []string{"f", "f"}
		inMem = append(inMem, v.Run(content)...)
	}
	mode := engine.NOTHING
	if vBool("mode NEW") {
		mode = engine.NEW
	}
	vNote("mode", mode.String())
	vNoteInt("files", len(files))
	fromFile := v.RunFiles(files, mode, false)
	vReach("ran")
	if twin != 0 {
		vFail("TWIN reached the comparison")
	}
	if len(inMem) != len(fromFile) {
		vNote("mem", vSpansStr(inMem))
		vNote("file", vSpansStr(fromFile))
		vFail("searching the file finds a different number of matches than searching its bytes")
	}
	for i := range inMem {
		a, b := inMem[i], fromFile[i]
		if a.Offset.Start != b.Offset.Start || a.Offset.End != b.Offset.End || a.Value != b.Value || a.MatchNumber != b.MatchNumber ||
			a.Line.Start != b.Line.Start || a.Line.End != b.Line.End || a.Column.Start != b.Column.Start || a.Column.End != b.Column.End ||
			a.Replacement.HasValue() != b.Replacement.HasValue() || a.Replacement.GetValueOrDefault("") != b.Replacement.GetValueOrDefault("") {
			vFail("a match found in the file differs from the match found in memory")
		}
		if a.Variables.Len() != b.Variables.Len() {
			vFail("variables differ between file and memory search")
		}
		for _, k := range a.Variables.Keys() {
			va, _ := a.Variables.Get(k)
			vb, ok := b.Variables.Get(k)
			if !ok {
				vFail("variables differ between file and memory search")
			}
			sa, _ := va.ToGo().(string)
			sb, _ := vb.ToGo().(string)
			if sa != sb {
				vFail("variables differ between file and memory search")
			}
		}
	}
}

var c07Programs = []string{
	"find all 'a'", "find all any", "find all at least 1 'a' 'b'", "find all line start any", "find all any line end", "find all word start letter", "find all letter word end",
	"find all 'a' file end", "find all file start 'a'", "find all at least 1 any fewest 'b'", "find all (any = x) x", "find all whole line", "find all not in 'a', 'b'",
	"replace all 'a' with 'bb'", "find all @/a+b?/", "find last 1 any", "find all maybe 'a' 'b' or 'c'", "find all whole file", "find all whole word",
	// several commands over the same file, in every order of find and replace
	"replace all 'a' with 'b' find all any", "find all 'a' replace all any with 'c'", "replace all 'a' with 'bb' replace all 'b' with ''", "find all 'a' find all 'b' find all any",
	"replace all 'zz' with 'y' find all 'a'",
}

const c07FirstMulti = 19

func VerifC07RunCount() int { return len(c07Programs) }

// ---- long reads and large files (through the public API only) ----------------------------------------

func c07Letters(n int, salt int) string {
	b := make([]byte, n)
	for i := range b {
		b[i] = byte('a' + (i*7+i/26+salt)%26)
	}
	return string(b)
}

var c07LongExtra = []int{511, 512, 513, 1023, 1024, 1025, 2047, 2048, 2049, 4095, 4096, 4097, 5000, 8193}

// VerifC07Long: one read of n bytes issued by the engine (a literal of n letters, or a back-reference to a
// capture of n letters), n symbolic: every length in 1..N and the lengths around the powers of two up to
// twice the read buffer. The file also holds 0..2 bytes in front (symbolic). RunFiles must report what Run reports.
func VerifC07Long(kind int, N int) {
	extra := c07LongExtra
	if kind == 1 {
		// a capture of n bytes is built by n loop iterations, each saving a state that holds the text matched
		// so far: quadratic in n for the executor, so the large lengths are left to the literal
		extra = []int{127, 128, 129, 255, 256, 257, 511, 512, 513}
	}
	sel := vPick("length", N+len(extra))
	n := sel + 1
	if sel >= N {
		n = extra[sel-N]
	}
	leads := []int{0, 1, 2}
	lead := leads[vPick("lead", len(leads))]
	x := c07Letters(n, 3)
	pad := ""
	for i := 0; i < lead; i++ {
		pad += " "
	}
	src, content := "", ""
	switch kind {
	case 0:
		src = "find all '" + x + "'"
		// (the engine reads n bytes at every start position: the text is kept short for the large n)
		content = pad + x + "#"
		if n <= 64 {
			content = pad + "> " + x + " <" + x[:n/2] + "#" + x
		}
	case 1:
		src = "find all ':' (at least 1 letter) = field '=' field"
		content = pad + "id:" + x + "=" + x + ";\n" + ":" + x + "=" + c07Letters(n, 4) + ";"
	}
	vNote("source", "one engine read of n bytes: "+[]string{"literal of n letters", "back-reference to a capture of n letters"}[kind])
	vNoteInt("n", n)
	vNoteInt("bytes in front", lead)
	v, err := Compile(src)
	if err != nil {
		vFail("harness: program does not compile")
	}
	vfsInit()
	defer vfsDone()
	vfsWrite("f", content)
	inMem := v.Run(content)
	fromFile := v.RunFiles([]string{"f"}, engine.NOTHING, false)
	if len(inMem) == 0 {
		vFail("harness: the long text has no match in memory")
	}
	if len(inMem) != len(fromFile) {
		vNoteInt("matches in memory", len(inMem))
		vNoteInt("matches in the file", len(fromFile))
		vFail("searching the file finds a different number of matches than searching its bytes")
	}
	for i := range inMem {
		a, b := inMem[i], fromFile[i]
		if a.Offset.Start != b.Offset.Start || a.Offset.End != b.Offset.End || a.Value != b.Value || a.MatchNumber != b.MatchNumber ||
			a.Line.Start != b.Line.Start || a.Line.End != b.Line.End || a.Column.Start != b.Column.Start || a.Column.End != b.Column.End {
			vFail("a match found in the file differs from the match found in memory")
		}
	}
}

var c06Gaps = []int{0, 1, 2047, 2048, 2049, 4095, 4096, 4097}

// VerifC06Large: files larger than the read buffer. The content is  a^g1 b a^g2 [b a^g3]  with the gap
// lengths symbolic among the classes around 2048 and 4096 (half and whole read buffer), the replacement
// shorter or longer than the match, mode NEW or OVERWRITE: the written text is the exact splice.
func VerifC06Large(modeSel int, repl int) {
	g1 := c06Gaps[vPick("gap1", len(c06Gaps))]
	g2 := c06Gaps[vPick("gap2", len(c06Gaps))]
	third := vBool("third gap of 2049")
	rs := []string{"", "cc"}
	src := "replace all 'b' with '" + rs[repl] + "'"
	run := func(n int) string {
		b := make([]byte, n)
		for i := range b {
			b[i] = 'a'
		}
		return string(b)
	}
	content := run(g1) + "b" + run(g2)
	expected := run(g1) + rs[repl] + run(g2)
	if third {
		content += "b" + run(2049)
		expected += rs[repl] + run(2049)
	}
	modes := []engine.ReplaceMode{engine.NEW, engine.OVERWRITE}
	mode := modes[modeSel]
	vNote("source", src)
	vNote("mode", mode.String())
	vNoteInt("gap1", g1)
	vNoteInt("gap2", g2)
	vNoteInt("size", len(content))
	v, err := Compile(src)
	if err != nil {
		vFail("harness: program does not compile")
	}
	vfsInit()
	defer vfsDone()
	vfsWrite("f", content)
	ms := v.RunFiles([]string{"f"}, mode, false)
	want := 1
	if third {
		want = 2
	}
	if len(ms) != want {
		vFail("harness: unexpected number of matches in the large file")
	}
	fNow, _ := vfsRead("f")
	vNow, vOk := vfsRead("f.vored")
	switch mode {
	case engine.NEW:
		if fNow != content {
			vFail("mode NEW modified the searched file")
		}
		if !vOk || vNow != expected {
			vNoteInt("length written", len(vNow))
			vNoteInt("length expected", len(expected))
			vFail("mode NEW: <file>.vored is not the exact splice")
		}
	case engine.OVERWRITE:
		if fNow != expected {
			vNoteInt("length written", len(fNow))
			vNoteInt("length expected", len(expected))
			vFail("mode OVERWRITE: the searched file is not the exact splice")
		}
		if vOk {
			vFail("mode OVERWRITE touched another file")
		}
	}
}
