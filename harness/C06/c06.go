package libvore

import (
	"github.com/jmeaster30/vore/libvore/engine"
)

// C06: replace output is the exact splice; each mode touches only the file it may.
// C07 (pipeline part): searching a file equals searching its bytes in memory.

var c06Programs = []string{
	"replace all 'a' with 'xyz'",         // longer
	"replace all 'ab' with 'x'",          // shorter
	"replace all 'a' with ''",            // empty replacement... (an empty with item)
	"replace all any with 'q'",           // adjacent matches
	"replace all at least 1 'a' with '<' value '>'",
	"replace all 'a' = x 'b' with x x",
	"replace all digit with matchNumber '.'",
	"replace top 1 'a' with 'b'",
	"replace skip 1 'a' with 'bb'",
	"replace all 'zz' with 'y'",          // usually zero matches
	"replace all line start any with '#'",
	"find all 'a'",
	"find all any",
	"set f to transform return match + match end replace all letter with f",
}

func VerifC06Count() int { return len(c06Programs) }

func c06Splice(content string, ms engine.Matches) string {
	out := ""
	last := 0
	for _, m := range ms {
		out += content[last:m.Offset.Start]
		out += m.Replacement.GetValueOrDefault("")
		last = m.Offset.End
	}
	return out + content[last:]
}

// mode: 0 OVERWRITE, 2 NEW, 3 NOTHING (symbolic choice inside)
func VerifC06(prog int, T int, twin int) {
	src := c06Programs[prog]
	v, err := Compile(src)
	if err != nil {
		vFail("harness: program does not compile: " + src)
	}
	isReplace := len(src) >= 7 && src[0:7] != "find al" && src[0:4] != "find"
	if src[0:3] == "set" {
		isReplace = true
	}
	content := vText("content", 1, T, true)
	stale := vBool("stale .vored present")
	staleContent := "OLD"
	modeSel := vPick("mode", 3)
	modes := []engine.ReplaceMode{engine.NOTHING, engine.NEW, engine.OVERWRITE}
	mode := modes[modeSel]
	vNote("source", src)
	vNote("content", content)
	vNote("mode", mode.String())
	vfsInit()
	defer vfsDone()
	vfsWrite("f", content)
	vfsWrite("other", "untouched")
	if stale {
		vfsWrite("f.vored", staleContent)
	}
	before := vfsCount()
	ms := v.RunFiles([]string{"f"}, mode, false)
	vReach("ran")
	if twin != 0 {
		vFail("TWIN reached the assertions")
	}
	fNow, fOk := vfsRead("f")
	vNow, vOk := vfsRead("f.vored")
	oNow, _ := vfsRead("other")
	if !fOk {
		vFail("the searched file disappeared")
	}
	if oNow != "untouched" {
		vFail("an unrelated file was modified")
	}
	expected := c06Splice(content, ms)
	vNote("expected", expected)
	unchangedStale := (stale && vOk && vNow == staleContent) || (!stale && !vOk)
	if !isReplace {
		// find commands never modify any file
		if fNow != content || !unchangedStale || vfsCount() != before {
			vFail("a find command modified the file system")
		}
		return
	}
	switch mode {
	case engine.NOTHING:
		if fNow != content || !unchangedStale || vfsCount() != before {
			vNote("fNow", fNow)
			vFail("mode NOTHING changed a file")
		}
	case engine.NEW:
		if fNow != content {
			vFail("mode NEW modified the searched file")
		}
		if !vOk || vNow != expected {
			vNote("vored", vNow)
			vFail("mode NEW: <file>.vored is not the exact splice")
		}
		wantCount := before
		if !stale {
			wantCount++
		}
		if vfsCount() != wantCount {
			vFail("mode NEW created another file")
		}
	case engine.OVERWRITE:
		if fNow != expected {
			vNote("fNow", fNow)
			vFail("mode OVERWRITE: the searched file is not the exact splice")
		}
		if !unchangedStale || vfsCount() != before {
			vFail("mode OVERWRITE touched another file")
		}
	}
}

// VerifC07Run: RunFiles on a file vs Run on the same bytes: all Match fields equal.
func VerifC07Run(prog int, T int, ascii int, twin int) {
	src := c07Programs[prog]
	v, err := Compile(src)
	if err != nil {
		vFail("harness: program does not compile: " + src)
	}
	content := vText("content", 0, T, ascii != 0)
	vNote("source", src)
	vNote("content", content)
	vfsInit()
	defer vfsDone()
	vfsWrite("f", content)
	inMem := v.Run(content)
	fromFile := v.RunFiles([]string{"f"}, engine.NOTHING, false)
	vReach("ran")
	if twin != 0 {
		vFail("TWIN reached the comparison")
	}
	if len(inMem) != len(fromFile) {
		vNote("mem", vSpansStr(inMem))
		vNote("file", vSpansStr(fromFile))
		vFail("searching the file finds a different number of matches than searching its bytes")
	}
	for i := range inMem {
		a, b := inMem[i], fromFile[i]
		if a.Offset.Start != b.Offset.Start || a.Offset.End != b.Offset.End || a.Value != b.Value || a.MatchNumber != b.MatchNumber ||
			a.Line.Start != b.Line.Start || a.Line.End != b.Line.End || a.Column.Start != b.Column.Start || a.Column.End != b.Column.End ||
			a.Replacement.HasValue() != b.Replacement.HasValue() || a.Replacement.GetValueOrDefault("") != b.Replacement.GetValueOrDefault("") {
			vFail("a match found in the file differs from the match found in memory")
		}
		if a.Variables.Len() != b.Variables.Len() {
			vFail("variables differ between file and memory search")
		}
		for _, k := range a.Variables.Keys() {
			va, _ := a.Variables.Get(k)
			vb, ok := b.Variables.Get(k)
			if !ok {
				vFail("variables differ between file and memory search")
			}
			sa, _ := va.ToGo().(string)
			sb, _ := vb.ToGo().(string)
			if sa != sb {
				vFail("variables differ between file and memory search")
			}
		}
	}
}

var c07Programs = []string{
	"find all 'a'", "find all any", "find all at least 1 'a' 'b'", "find all line start any", "find all any line end", "find all word start letter", "find all letter word end",
	"find all 'a' file end", "find all file start 'a'", "find all at least 1 any fewest 'b'", "find all (any = x) x", "find all whole line", "find all not in 'a', 'b'",
	"replace all 'a' with 'bb'", "find all @/a+b?/", "find last 1 any", "find all maybe 'a' 'b' or 'c'", "find all whole file", "find all whole word",
}

func VerifC07RunCount() int { return len(c07Programs) }
