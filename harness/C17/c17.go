package libvore

import (
	"github.com/jmeaster30/vore/libvore/engine"
)

// C17: JSON output is valid and carries the match data unchanged. Both renderings are produced by
// the real Matches.Json / FormattedJson / MarshalJSON code and decoded by the small JSON parser below.

func c17Range(o *jv, start int, end int) bool {
	if o == nil || o.kind != 5 || len(o.keys) != 2 {
		return false
	}
	s, e := o.get("start"), o.get("end")
	return s != nil && e != nil && s.kind == 2 && e.kind == 2 && s.n == start && e.n == end
}

// variables mirror the in-memory hash map recursively
func c17Vars(o *jv, vars engine.ValueHashMap) bool {
	if o == nil || o.kind != 5 || len(o.keys) != vars.Len() {
		return false
	}
	for _, k := range vars.Keys() {
		v, _ := vars.Get(k)
		j := o.get(k)
		if j == nil {
			return false
		}
		switch g := v.ToGo().(type) {
		case string:
			if j.kind != 3 || j.s != g {
				return false
			}
		default:
			if !c17Vars(j, v.Hashmap()) {
				return false
			}
		}
	}
	return true
}

var c17Programs = []string{
	"find all any",
	"find all any = x any",
	"find all at least 1 (any = c) named l",
	"replace all any with 'r' value",
	"replace all any = x with x x",
	"find all 'zzzzz'",
	"replace all any with ''",
	"replace all any (maybe 'z') = gone with gone",
	"replace all 'a' with '' value",
	"find all any find all any any",
	"find all at least 1 (at least 1 (any = c) fewest named i) named o",
}

func VerifC17Count() int { return len(c17Programs) }

// c17Fragments: pieces of JSON syntax and of JSON escape sequences. Texts glued together from them reach
// the strings a renderer is most likely to mangle (escape look-alikes such as a literal backslash followed
// by u003c, quotes next to backslashes) with a handful of symbolic choices instead of six to eight
// unconstrained bytes.
var c17Fragments = []string{"\\", "\"", "u003c", "u0026", "u003e", "u2028", "<", ">", "&", "/", "n", "\n", "\x01", "\x7f", "a", "\\u", "{", "}", "[", "]", ":", ",", "'", " "}

// VerifC17Fragments: the text is a concatenation of k fragments, each a symbolic choice.
func VerifC17Fragments(prog int, k int) {
	text := ""
	for i := 0; i < k; i++ {
		text += c17Fragments[vPick("fragment", len(c17Fragments))]
	}
	c17Check(prog, text, 0)
}

func VerifC17(prog int, T int, twin int) {
	text := vText("text", 0, T, true)
	c17Check(prog, text, twin)
}

func c17Check(prog int, text string, twin int) {
	src := c17Programs[prog]
	v, err := Compile(src)
	if err != nil {
		vFail("harness: program does not compile: " + src)
	}
	vNote("source", src)
	vNote("text", text)
	ms := v.Run(text)
	compact := ms.Json()
	formatted := ms.FormattedJson()
	vReach("rendered")
	if twin != 0 {
		vFail("TWIN reached the assertions")
	}
	dc, ok1 := jparse(compact)
	df, ok2 := jparse(formatted)
	if !ok1 || !ok2 {
		vNote("compact", compact)
		vFail("a JSON rendering does not parse as JSON")
	}
	if !jequal(dc, df) {
		vFail("compact and formatted JSON are different documents")
	}
	if dc.kind != 4 || len(dc.arr) != len(ms) {
		vNote("compact", compact)
		vFail("the JSON document is not an array with one element per match")
	}
	for i, m := range ms {
		o := dc.arr[i]
		vReach("match")
		wantKeys := 7
		if m.Replacement.HasValue() {
			wantKeys = 8
		}
		if o.kind != 5 || len(o.keys) != wantKeys {
			vNote("compact", compact)
			vFail("a match object does not have exactly the documented keys")
		}
		fn, mn, val := o.get("filename"), o.get("matchNumber"), o.get("value")
		if fn == nil || fn.kind != 3 || fn.s != m.Filename || mn == nil || mn.kind != 2 || mn.n != m.MatchNumber || val == nil || val.kind != 3 || val.s != m.Value {
			vNote("compact", compact)
			vFail("filename / matchNumber / value differ from the in-memory match")
		}
		if !c17Range(o.get("offset"), m.Offset.Start, m.Offset.End) || !c17Range(o.get("line"), m.Line.Start, m.Line.End) || !c17Range(o.get("column"), m.Column.Start, m.Column.End) {
			vNote("compact", compact)
			vFail("offset / line / column differ from the in-memory match")
		}
		rep := o.get("replacement")
		if m.Replacement.HasValue() {
			if rep == nil || rep.kind != 3 || rep.s != m.Replacement.GetValue() {
				vFail("replacement differs from the in-memory match")
			}
		} else if rep != nil {
			vFail("a find match carries a replacement key")
		}
		if !c17Vars(o.get("variables"), m.Variables) {
			vNote("compact", compact)
			vFail("variables differ from the in-memory match")
		}
	}
}
