package libvore

import (
	"github.com/jmeaster30/vore/libvore/engine"
)

// C13 with process code: a source with two definitions (a transform f and a transform or predicate g that
// use the same variable names) and two commands gives the concatenation of the results of the two commands
// taken alone with their own definition — nothing a definition computes or assigns is visible to the other,
// at compile time or at run time.

func c13SameMatch(a engine.Match, b engine.Match) bool {
	return a.Offset.Start == b.Offset.Start && a.Offset.End == b.Offset.End && a.Value == b.Value && a.MatchNumber == b.MatchNumber &&
		a.Replacement.HasValue() == b.Replacement.HasValue() && a.Replacement.GetValueOrDefault("") == b.Replacement.GetValueOrDefault("")
}

func VerifC13Procs(job int, T int) {
	menu := []string{"'s'", "1", "v", "v + 1", "head v", "match + v"}
	b1 := c12FillFrom(c12PairFirst[job/len(c12PairSecond)], menu)
	b2 := c12FillFrom(c12PairSecond[job%len(c12PairSecond)], menu)
	d1 := "set f to transform " + b1 + " end "
	d2 := "set g to transform " + b2 + " end "
	use2 := "replace all any with g"
	if vBool("second definition is a predicate") {
		d2 = "set g to pattern any begin " + b2 + " end "
		use2 = "find all g"
	}
	alone1 := d1 + "replace all any with f"
	alone2 := d2 + use2
	both := d1 + d2 + "replace all any with f " + use2
	vNote("source", both)
	v1, e1 := Compile(alone1)
	v2, e2 := Compile(alone2)
	vb, eb := Compile(both)
	if e1 != nil || e2 != nil || eb != nil {
		// acceptance is C12's subject
		return
	}
	texts := []string{"a", "1b", ""}
	text := texts[vPick("text", T+1)]
	vNote("text", text)
	want := append(append(engine.Matches{}, v1.Run(text)...), v2.Run(text)...)
	got := vb.Run(text)
	if len(got) != len(want) {
		vFail("the result of a multi-command source is not the concatenation of the results of its commands taken alone")
	}
	for i := range got {
		if !c13SameMatch(got[i], want[i]) {
			vNoteInt("match", i+1)
			vNote("got replacement", got[i].Replacement.GetValueOrDefault(""))
			vNote("want replacement", want[i].Replacement.GetValueOrDefault(""))
			vFail("the result of a multi-command source is not the concatenation of the results of its commands taken alone")
		}
	}
	vReach("compared")
}
