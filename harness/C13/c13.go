package libvore

import (
	"github.com/jmeaster30/vore/libvore/engine"
)

// C13: definitions are transparent; commands, runs and compilations are independent.
// Relational harness: the real pipeline is compared with itself on textually different but
// equivalent sources.

var c13Bodies = []string{
	"'a'", "'ab'", "'a' or 'b'", "'a' or 'bc' or 'd'", "in 'a', 'b'", "not in 'a', 'b'", "in 'a' to 'c', 'x'", "at least 1 'a'", "maybe 'a' 'b'",
	"at least 1 ('a' or 'b')", "at least 1 'a' fewest 'b'", "any", "digit or 'a'", "('a' 'b') or 'c'", "at most 2 in 'a', 'b'", "'a' not in 'b'",
	"at least 1 (maybe 'a' 'b')", "between 1 and 2 ('a' or 'b') 'c'",
}

// each context yields (named program, written-out program); %N = reference by name, %B = body in parentheses
var c13Contexts = [][2]string{
	{"find all {%B} = s", "find all %B"},
	{"find all {%B} = s s", "find all %B %B"},
	{"find all 'x' {%B} = s 'y' s", "find all 'x' %B 'y' %B"},
	{"set s to pattern %B find all s", "find all %B"},
	{"set s to pattern %B find all s s", "find all %B %B"},
	{"set s to pattern %B find all s s s", "find all %B %B %B"},
	{"set s to pattern %B find all 'x' s", "find all 'x' %B"},
	{"set s to pattern %B find all s 'x'", "find all %B 'x'"},
	{"set s to pattern %B find all at least 1 s", "find all at least 1 %B"},
	{"set s to pattern %B find all s or 'x'", "find all %B or 'x'"},
	{"set s to pattern %B find all 'x' or s", "find all 'x' or %B"},
	{"set s to pattern %B find all maybe s 'x'", "find all maybe %B 'x'"},
	{"set s to pattern %B find all ('y' s) or ('x' s)", "find all ('y' %B) or ('x' %B)"},
	{"set s to pattern %B set t to pattern s 'x' find all t", "find all %B 'x'"},
	{"set s to pattern %B set t to pattern 'x' s find all t t", "find all 'x' %B 'x' %B"},
	// a definition referenced before a loop and again inside it (the loop body is generated more than once)
	{"set s to pattern %B find all s at least 1 s", "find all %B at least 1 %B"},
	{"set s to pattern %B find all s between 1 and 2 s", "find all %B between 1 and 2 %B"},
	{"find all {%B} = s at least 1 s", "find all %B at least 1 %B"},
	{"find all {%B} = s at least 2 s", "find all %B at least 2 %B"},
	{"set s to pattern %B find all s 'x' at least 1 s", "find all %B 'x' at least 1 %B"},
	{"set s to pattern %B find all s at least 1 (s or 'x')", "find all %B at least 1 (%B or 'x')"},
	{"set s to pattern %B find all at least 1 s at least 1 ('x' s)", "find all at least 1 %B at least 1 ('x' %B)"},
}

// multi-command programs: the result must be the concatenation of the commands run alone
var c13Multi = [][]string{
	{"set s to pattern %B", "find all s 'c'", "find all 'c' s"},
	{"set s to pattern %B", "find all s", "find all s s", "find all 'x' s"},
	{"set s to pattern %B", "replace all s with 'r'", "find all s"},
	{"", "find all {%B} = s s", "find all {%B} = s"},
	{"", "find all %B", "find skip 1 %B", "find last 1 %B"},
}

func VerifC13Count() int { return len(c13Bodies) * (len(c13Contexts) + len(c13Multi)) }

func c13Subst(tmpl string, body string) string {
	s := ""
	for j := 0; j < len(tmpl); j++ {
		if tmpl[j] == '%' && j+1 < len(tmpl) && tmpl[j+1] == 'B' {
			s += "(" + body + ")"
			j++
		} else {
			s += string(tmpl[j])
		}
	}
	return s
}

func c13Same(a engine.Matches, b engine.Matches) bool {
	if len(a) != len(b) {
		return false
	}
	for i := range a {
		if a[i].Offset.Start != b[i].Offset.Start || a[i].Offset.End != b[i].Offset.End || a[i].Value != b[i].Value || a[i].MatchNumber != b[i].MatchNumber ||
			a[i].Replacement.GetValueOrDefault("") != b[i].Replacement.GetValueOrDefault("") {
			return false
		}
	}
	return true
}

func VerifC13(job int, T int, twin int) {
	nb := len(c13Bodies)
	body := c13Bodies[job%nb]
	k := job / nb
	text := vText("text", 0, T, true)
	vNote("text", text)
	if k < len(c13Contexts) {
		named := c13Subst(c13Contexts[k][0], body)
		plain := c13Subst(c13Contexts[k][1], body)
		vNote("source", named)
		vNote("equivalent", plain)
		bcN := vGen(vParse(named))
		bcP := vGen(vParse(plain))
		// the compiled program must be read-only at run time
		vFreeze("compiled bytecode during Run", bcN)
		got := engine.Run(bcN, text)
		again := engine.Run(bcN, text)
		vThaw()
		want := engine.Run(bcP, text)
		after := engine.Run(bcN, text)
		bcN2 := vGen(vParse(named))
		recompiled := engine.Run(bcN2, text)
		if twin != 0 {
			vFail("TWIN reached the comparison")
		}
		if !c13Same(got, want) {
			vNote("got", vSpansStr(got))
			vNote("want", vSpansStr(want))
			vFail("naming a pattern changed what it matches")
		}
		if !c13Same(got, again) || !c13Same(got, after) {
			vFail("running a compiled program again gives a different result")
		}
		if !c13Same(got, recompiled) {
			vFail("compiling the same source again gives a different result")
		}
		return
	}
	mc := c13Multi[k-len(c13Contexts)]
	defs := c13Subst(mc[0], body)
	full := defs
	for _, c := range mc[1:] {
		full += " " + c13Subst(c, body)
	}
	vNote("source", full)
	got := engine.Run(vGen(vParse(full)), text)
	var want engine.Matches
	for _, c := range mc[1:] {
		one := engine.Run(vGen(vParse(defs+" "+c13Subst(c, body))), text)
		want = append(want, one...)
	}
	if twin != 0 {
		vFail("TWIN reached the comparison")
	}
	if !c13Same(got, want) {
		vNote("got", vSpansStr(got))
		vNote("want", vSpansStr(want))
		vFail("multi-command result is not the concatenation of the commands run alone")
	}
}

// bodies that can match the empty string, referenced several times with required text after the last
// reference (what follows a call can then be reached without consuming input through that call)
var c13NullBodies = []string{"maybe 'a'", "at least 0 'a'", "maybe ('a' or 'b')", "at least 0 ('a' 'b')", "maybe 'a' fewest"}
var c13NullContexts = [][2]string{
	{"set s to pattern %B find all s s 'x'", "find all %B %B 'x'"},
	{"find all {%B} = s s 'x'", "find all %B %B 'x'"},
	{"set s to pattern %B find all s ('x' or s) 'y'", "find all %B ('x' or %B) 'y'"},
	{"set s to pattern %B find all at least 1 (s 'x')", "find all at least 1 (%B 'x')"},
	{"set s to pattern %B find all 'x' s s", "find all 'x' %B %B"},
	{"set s to pattern %B find all s s s 'x' s", "find all %B %B %B 'x' %B"},
}

func VerifC13NullCount() int { return len(c13NullBodies) * len(c13NullContexts) }

func VerifC13Null(job int, T int) {
	sb, sc := c13Bodies, c13Contexts
	c13Bodies, c13Contexts = c13NullBodies, c13NullContexts
	defer func() { c13Bodies, c13Contexts = sb, sc }()
	VerifC13(job, T, 0)
}
