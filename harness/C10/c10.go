package libvore

// C10: a search without unguarded recursion always terminates. Termination is the unwinding
// assertion: every path must return within the instruction budget (set by the job two orders of
// magnitude above the worst legitimate path of the family).

var c10Nullable = []string{
	"maybe 'a'", "at least 0 'a'", "at most 2 'a'", "()", "line start", "line end", "file start", "file end", "word start", "word end",
	"not line start", "not file end", "not word start", "not word end", "not file start", "not line end", "(maybe 'a' maybe 'b')", "('a' or ())", "(() or 'a')",
	"not whole file", "maybe any", "at least 0 any fewest", "maybe 'a' fewest",
}

var c10Wrappers = []string{
	"at least 0 %", "at least 1 %", "at least 0 % fewest", "at least 1 % fewest", "at least 2 %", "between 0 and 3 %",
	"at least 0 (at least 0 %)", "at least 1 (at least 1 %)", "at least 0 (at least 0 % fewest) fewest", "at least 1 (maybe (at least 0 %))",
	"at least 0 (% or 'x')", "at least 0 ('x' or %)", "at least 0 (% 'x')", "at least 0 ('x' %)", "at least 1 (% %)",
	"{at least 0 %} = s", "{at least 0 % maybe ('x' s)} = s", "at least 0 {%} = s", "at least 0 (%) = v",
	"at least 1 % named l", "at least 0 (at least 0 % named i) named o",
}

var c10Extra = []string{
	"find all at least 0 not in 'a'", "find all at least 0 not in 'a', 'bc'", "find all at least 0 (not in 'a') 'a'", "find all at least 0 not in 'ab' fewest 'a'",
	"find all at least 0 not 'a'", "find all at least 0 not digit", "find all at least 0 not letter", "find all at least 0 not whitespace", "find all at least 1 not upper 'a'",
	"set p to pattern maybe 'a' find all at least 0 p", "set p to pattern at least 0 'a' find all at least 1 p 'b'", "set p to pattern line start find all at least 0 p any",
	"find all at least 0 (maybe 'a') = x", "find all (maybe 'a') = x at least 0 x", "find all at least 0 whole line", "find all at least 0 whole word", "find all at least 0 whole file",
	"find all at least 0 @/a*/", "find all @/(a*)*/", "find all @/(a*)+b/", "find all @/(a|b*)*c/", "find all @/(^)*a/", "find all @/($)+/",
}

// guarded recursion: a subroutine that consumes one atom and then may call itself. Every kind of atom
// (literal, class, negated class, list, negated list, caseless, any) in front of every form of the
// recursive call; the property promises termination because the atom consumes a byte or fails.
var c10Atoms = []string{"'a'", "any", "digit", "letter", "not digit", "not letter", "not upper", "not lower", "not whitespace", "not 'a'", "not in 'a'", "in 'a', 'b'", "caseless 'a'", "not in 'a' to 'c'", "whitespace"}
var c10Recursions = []string{"{% maybe s} = s", "{% (s or 'b')} = s", "{% maybe s fewest} = s 'Z'", "{% at most 1 s} = s", "{(% or 'q') maybe s} = s 'z'"}

var c10ExtraBuilt = false

func c10AllExtra() []string {
	if c10ExtraBuilt {
		return c10Extra
	}
	c10ExtraBuilt = true
	for _, r := range c10Recursions {
		for _, a := range c10Atoms {
			s := "find all "
			for j := 0; j < len(r); j++ {
				if r[j] == '%' {
					s += a
				} else {
					s += string(r[j])
				}
			}
			c10Extra = append(c10Extra, s)
		}
	}
	return c10Extra
}

func VerifC10Count() int { return len(c10Nullable)*len(c10Wrappers) + len(c10AllExtra()) }

func c10Source(i int) string {
	n := len(c10Nullable) * len(c10Wrappers)
	if i >= n {
		return c10AllExtra()[i-n]
	}
	w := c10Wrappers[i/len(c10Nullable)]
	b := c10Nullable[i%len(c10Nullable)]
	s := "find all "
	for j := 0; j < len(w); j++ {
		if w[j] == '%' {
			s += b
		} else {
			s += string(w[j])
		}
	}
	// the continuation after the loop must be able to FAIL (so that the search backtracks into the
	// nullable loop) and to succeed: a literal, on a symbolic text, does both
	return s + " 'z'"
}

func VerifC10(shape int, T int) {
	src := c10Source(shape)
	vNote("source", src)
	v, err := Compile(src)
	if err != nil {
		vReach("rejected")
		return
	}
	text := vText("text", 0, T, true)
	vNote("text", text)
	defer func() {
		// panics are C09's subject; only non-termination counts here
		recover()
	}()
	v.Run(text)
	vReach("terminated")
}
