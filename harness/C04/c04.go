package libvore

import (
	"github.com/jmeaster30/vore/libvore/ast"
	"github.com/jmeaster30/vore/libvore/engine"
)

// C04: all/skip/take/top/last select windows of one and the same match sequence.

var c04Bodies = []string{
	"'a'", "'aa'", "'ab'", "any", "any any", "at least 1 'a'", "at most 2 'a'", "at least 1 any fewest 'a'",
	"'a' or 'ab'", "'ab' or 'a'", "maybe 'a' 'a'", "in 'a', 'b'", "digit", "at least 1 letter", "'a' = x", "not 'a'", "line start any",
}

func VerifC04Count() int { return len(c04Bodies) }

func c04Same(a engine.Match, b engine.Match) bool {
	return a.Offset.Start == b.Offset.Start && a.Offset.End == b.Offset.End && a.Value == b.Value && a.MatchNumber == b.MatchNumber &&
		a.Line.Start == b.Line.Start && a.Line.End == b.Line.End && a.Column.Start == b.Column.Start && a.Column.End == b.Column.End &&
		a.Replacement.HasValue() == b.Replacement.HasValue() && a.Replacement.GetValueOrDefault("") == b.Replacement.GetValueOrDefault("")
}

func c04SameList(got engine.Matches, want []engine.Match) bool {
	if len(got) != len(want) {
		return false
	}
	for i := range got {
		if !c04Same(got[i], want[i]) {
			return false
		}
	}
	return true
}

func c04Nums(ms []engine.Match) string {
	s := ""
	for _, m := range ms {
		s += "#" + vItoa(m.MatchNumber) + "[" + vItoa(m.Offset.Start) + "," + vItoa(m.Offset.End) + ")"
	}
	return s
}

func c04SetAmount(a *ast.Ast, all bool, skip int, take int, last int) {
	switch c := a.Commands()[0].(type) {
	case *ast.AstFind:
		c.All, c.Skip, c.Take, c.Last = all, skip, take, last
	case *ast.AstReplace:
		c.All, c.Skip, c.Take, c.Last = all, skip, take, last
	}
}

// c04Amount sets the amount clause of the command. Under gosym the (all,skip,take,last) tuple is written
// into the tree (s, t, n are symbolic). In the native replay the clause is spelled with the concrete numbers
// and parsed by the real parser, and the whole command header is taken from that parse: the replay then
// does not depend on how this implementation represents an amount.
func c04Amount(a *ast.Ast, form int, all bool, skip int, take int, last int) {
	if vSymbolic() {
		c04SetAmount(a, all, skip, take, last)
		return
	}
	clause := ""
	switch form {
	case 0:
		clause = "top " + vItoa(take)
	case 1:
		clause = "skip " + vItoa(skip)
	case 2:
		clause = "skip " + vItoa(skip) + " take " + vItoa(take)
	case 3:
		clause = "last " + vItoa(last)
	}
	switch c := a.Commands()[0].(type) {
	case *ast.AstFind:
		p := vParse("find " + clause + " 'a'").Commands()[0].(*ast.AstFind)
		body := c.Body
		*c = *p
		c.Body = body
	case *ast.AstReplace:
		p := vParse("replace " + clause + " 'a' with 'b'").Commands()[0].(*ast.AstReplace)
		body, res := c.Body, c.Result
		*c = *p
		c.Body, c.Result = body, res
	}
}

func c04Run(a *ast.Ast, text string) engine.Matches {
	return engine.Run(vGen(a), text)
}

// VerifC04: replace=1 uses a replace command. The amount tuple (all,skip,take,last) is the one
// parse_amount produces for each clause (checked separately by VerifC04Amount); s,t,n symbolic in [0,4].
func VerifC04(body int, T int, replace int, symLits int, twin int) {
	src := "find all " + c04Bodies[body]
	if replace != 0 {
		src = "replace all " + c04Bodies[body] + " with 'r' matchNumber"
	}
	a := vParse(src)
	if symLits > 0 {
		vSymboliseLiterals(a, symLits)
	}
	text := vText("text", 0, T, true)
	vNote("source", src)
	vNote("text", text)
	all := c04Run(a, text)
	A := []engine.Match(all)
	s := vRange("s", 0, 4)
	t := vRange("t", 0, 4)
	n := vRange("n", 0, 4)
	vNoteInt("s", s)
	vNoteInt("t", t)
	vNoteInt("n", n)
	vNote("all", c04Nums(A))
	if twin != 0 {
		vFail("TWIN reached the comparison")
	}
	min := func(x int, y int) int {
		if x < y {
			return x
		}
		return y
	}
	// top n / take n
	c04Amount(a, 0, false, 0, n, 0)
	got := c04Run(a, text)
	if !c04SameList(got, A[:min(n, len(A))]) {
		vNote("got", c04Nums(got))
		vFail("take/top n is not A[0:n]")
	}
	// skip s
	c04Amount(a, 1, true, s, 0, 0)
	got = c04Run(a, text)
	if !c04SameList(got, A[min(s, len(A)):]) {
		vNote("got", c04Nums(got))
		vFail("skip s is not A[s:]")
	}
	// skip s take t
	c04Amount(a, 2, false, s, t, 0)
	got = c04Run(a, text)
	lo := min(s, len(A))
	hi := min(s+t, len(A))
	if !c04SameList(got, A[lo:hi]) {
		vNote("got", c04Nums(got))
		vFail("skip s take t is not A[s:s+t]")
	}
	// last n (n >= 1)
	if n >= 1 {
		c04Amount(a, 3, true, 0, 0, n)
		got = c04Run(a, text)
		from := len(A) - n
		if from < 0 {
			from = 0
		}
		if !c04SameList(got, A[from:]) {
			vNote("got", c04Nums(got))
			vFail("last n is not the final n elements of A")
		}
	}
}

// VerifC04Amount: the real lexer+parser map every amount clause with symbolic decimal digits to the
// tuple the harness above uses.
func VerifC04Amount(kind int) {
	d1 := vByte("d1")
	d2 := vByte("d2")
	vAssume(d1 >= '0' && d1 <= '9' && d2 >= '0' && d2 <= '9')
	n1 := int(d1 - '0')
	n2 := int(d2-'0') + 10*int(d1-'0')
	num1 := string([]byte{d1})
	num2 := string([]byte{d1, d2})
	var src string
	var wAll bool
	var wSkip, wTake, wLast int
	switch kind {
	case 0:
		src, wAll, wSkip = "find skip "+num1+" 'a'", true, n1
	case 1:
		src, wAll, wSkip, wTake = "find skip "+num1+" take "+num2+" 'a'", false, n1, n2
	case 2:
		src, wTake = "find take "+num2+" 'a'", n2
	case 3:
		src, wTake = "find top "+num1+" 'a'", n1
	case 4:
		src, wAll, wLast = "find last "+num2+" 'a'", true, n2
	case 5:
		src, wAll = "find all 'a'", true
	case 6:
		src, wAll, wSkip, wTake = "replace skip "+num2+" take "+num1+" 'a' with 'b'", false, n2, n1
	case 7:
		src, wAll, wLast = "replace last "+num1+" 'a' with 'b'", true, n1
	}
	vNote("source", src)
	if !vSymbolic() {
		// native replay: what the clause selects, observed through Compile and Run on 130 matches
		c04AmountObserved(src, kind >= 6, wAll, wSkip, wTake, wLast)
		return
	}
	a := vParse(src)
	var gAll bool
	var gSkip, gTake, gLast int
	switch c := a.Commands()[0].(type) {
	case *ast.AstFind:
		gAll, gSkip, gTake, gLast = c.All, c.Skip, c.Take, c.Last
	case *ast.AstReplace:
		gAll, gSkip, gTake, gLast = c.All, c.Skip, c.Take, c.Last
	}
	if gAll != wAll || gSkip != wSkip || gTake != wTake || gLast != wLast {
		vFail("amount clause parsed into the wrong (all,skip,take,last) tuple")
	}
}

// c04AmountObserved: the clause, compiled and run through the public API on a text with 130 matches,
// selects the window the property describes (skip s -> A[s:], skip s take t -> A[s:s+t], take/top n ->
// A[0:n], last n -> the final n), every match unchanged including its number.
func c04AmountObserved(src string, replace bool, all bool, skip int, take int, last int) {
	text := ""
	for i := 0; i < 130; i++ {
		text += "a"
	}
	allSrc := "find all 'a'"
	if replace {
		allSrc = "replace all 'a' with 'b'"
	}
	va, err := Compile(allSrc)
	if err != nil {
		vFail("harness: " + allSrc + " does not compile")
	}
	A := []engine.Match(va.Run(text))
	v, err := Compile(src)
	if err != nil {
		vFail("amount clause parsed into the wrong (all,skip,take,last) tuple: the clause is rejected")
	}
	got := v.Run(text)
	lo, hi := 0, len(A)
	switch {
	case last > 0:
		lo = len(A) - last
	case all:
		lo = skip
	default:
		lo, hi = skip, skip+take
	}
	if lo < 0 {
		lo = 0
	}
	if lo > len(A) {
		lo = len(A)
	}
	if hi > len(A) {
		hi = len(A)
	}
	if hi < lo {
		hi = lo
	}
	if !c04SameList(got, A[lo:hi]) {
		vFail("amount clause parsed into the wrong (all,skip,take,last) tuple: " + src + " selects " + c04Nums(got))
	}
}

// VerifC04Long: large windows. The text is k copies of a unit that matches once (k symbolic in [0,K]),
// k symbolic in [Klo,K], the amount n, s, t symbolic in [0,N] with N in the tens, so that counts cross every power of two and
// every small internal capacity (queue compaction thresholds, slice growth) of the data structures that
// hold the window. One clause form per job.
func VerifC04Long(form int, Klo int, K int, N int, replace int, u int) {
	units := []string{"a", "ab"}
	bodies := []string{"'a'", "'a' maybe 'b'"}
	src := "find all " + bodies[u]
	if replace != 0 {
		src = "replace all " + bodies[u] + " with 'r' matchNumber"
	}
	a := vParse(src)
	k := vRange("k", Klo, K)
	text := ""
	for i := 0; i < k; i++ {
		text += units[u]
	}
	vNote("source", src)
	vNoteInt("copies of the unit in the text", k)
	A := []engine.Match(c04Run(a, text))
	if len(A) != k {
		vFail("harness: the long text does not have one match per unit")
	}
	min := func(x int, y int) int {
		if x < y {
			return x
		}
		return y
	}
	n := vRange("n", 0, N)
	vNoteInt("n", n)
	switch form {
	case 0:
		c04Amount(a, 0, false, 0, n, 0)
		got := c04Run(a, text)
		if !c04SameList(got, A[:min(n, len(A))]) {
			vNote("got", c04Nums(got))
			vFail("take/top n is not A[0:n]")
		}
	case 1:
		c04Amount(a, 1, true, n, 0, 0)
		got := c04Run(a, text)
		if !c04SameList(got, A[min(n, len(A)):]) {
			vNote("got", c04Nums(got))
			vFail("skip s is not A[s:]")
		}
	case 2:
		t := vRange("t", 0, N)
		vNoteInt("t", t)
		c04Amount(a, 2, false, n, t, 0)
		got := c04Run(a, text)
		if !c04SameList(got, A[min(n, len(A)):min(n+t, len(A))]) {
			vNote("got", c04Nums(got))
			vFail("skip s take t is not A[s:s+t]")
		}
	case 3:
		vAssume(n >= 1)
		c04Amount(a, 3, true, 0, 0, n)
		got := c04Run(a, text)
		from := len(A) - n
		if from < 0 {
			from = 0
		}
		if !c04SameList(got, A[from:]) {
			vNote("got", c04Nums(got))
			vFail("last n is not the final n elements of A")
		}
	}
}
