package libvore

import (
	"github.com/jmeaster30/vore/libvore/ast"
	"github.com/jmeaster30/vore/libvore/engine"
)

// C05: a replacement is the concatenation of its `with` items for that match.

const c05Defs = "set e to pattern (any = x) " + "set f to transform return match + 'x' end " +
	"set g to transform return matchNumber * 2 end " +
	"set h to transform if x == 'a' then return 'A' else return x + matchLength end end " +
	"set k to transform set out to match set matchNumber to matchNumber * 3 return out + matchNumber end " +
	"set r to transform set out to seen + 'x' set seen to 'y' return out end "

var c05Bodies = []string{
	"any = x", "(any = x any) = y", "('a' = x) or 'b'", "at least 1 letter", "(at least 1 'a') = x 'b'", "('a' = x 'b') or ('a' 'c')",
}

var c05Withs = []string{
	"'<' x '>'", "x x", "matchNumber value", "startOffset '-' endOffset", "totalMatches", "lineNumber ':' columnNumber", "filename",
	"nope 'k'", "f", "'a' g x", "h", "y x 'z' y", "'' x", "value value", "f g h", "k '|' matchNumber", "r r '.' r",
}

func VerifC05Count() int { return len(c05Bodies) * len(c05Withs) }

func c05Transform(name string, m engine.Match) (string, bool) {
	x := ""
	if v, ok := m.Variables.Get("x"); ok {
		if s, isStr := v.ToGo().(string); isStr {
			x = s
		}
	}
	switch name {
	case "f":
		return m.Value + "x", true
	case "g":
		return vItoa(m.MatchNumber * 2), true
	case "h":
		if x == "a" {
			return "A", true
		}
		return x + vItoa(len(m.Value)), true
	case "r":
		// every call starts without the variables an earlier call assigned
		return "x", true
	case "k":
		// a transform may assign the per-match names it is given; the next match gets its own again
		return m.Value + vItoa(m.MatchNumber*3), true
	}
	return "", false
}

func c05Item(name string, m engine.Match, total int) string {
	if r, ok := c05Transform(name, m); ok {
		return r
	}
	switch name {
	case "totalMatches":
		return vItoa(total)
	case "matchNumber":
		return vItoa(m.MatchNumber)
	case "startOffset":
		return vItoa(m.Offset.Start)
	case "endOffset":
		return vItoa(m.Offset.End)
	case "lineNumber":
		return vItoa(m.Line.Start)
	case "columnNumber":
		return vItoa(m.Column.Start)
	case "value":
		return m.Value
	case "filename":
		return m.Filename
	}
	if v, ok := m.Variables.Get(name); ok {
		if s, isStr := v.ToGo().(string); isStr {
			return s
		}
	}
	return ""
}

func c05SameVars(a engine.ValueHashMap, b engine.ValueHashMap) bool {
	if a.Len() != b.Len() {
		return false
	}
	for _, k := range a.Keys() {
		va, _ := a.Get(k)
		vb, ok := b.Get(k)
		if !ok {
			return false
		}
		sa, oka := va.ToGo().(string)
		sb, okb := vb.ToGo().(string)
		if oka != okb || sa != sb {
			return false
		}
	}
	return true
}

func VerifC05(job int, T int, twin int) {
	body := c05Bodies[job/len(c05Withs)]
	with := c05Withs[job%len(c05Withs)]
	src := c05Defs + "replace all " + body + " with " + with
	fsrc := c05Defs + "find all " + body
	a := vParse(src)
	fa := vParse(fsrc)
	text := vText("text", 0, T, true)
	vNote("source", "replace all "+body+" with "+with)
	vNote("text", text)
	got := engine.Run(vGen(a), text)
	found := engine.Run(vGen(fa), text)
	if twin != 0 && len(got) > 0 {
		vFail("TWIN reached the comparison")
	}
	if len(got) != len(found) {
		vFail("replace and find with the same body report different numbers of matches")
	}
	var items []ast.AstAtom
	cs := a.Commands()
	items = cs[len(cs)-1].(*ast.AstReplace).Result
	for i := range got {
		m := got[i]
		f := found[i]
		vReach("match")
		if m.Offset.Start != f.Offset.Start || m.Offset.End != f.Offset.End || m.Value != f.Value || m.MatchNumber != f.MatchNumber || !c05SameVars(m.Variables, f.Variables) {
			vFail("replace match differs from the find match of the same body")
		}
		want := ""
		for _, it := range items {
			switch x := it.(type) {
			case *ast.AstString:
				want += x.Value
			case *ast.AstVariable:
				want += c05Item(x.Name, m, len(got))
			}
		}
		if !m.Replacement.HasValue() && len(items) > 0 {
			// a with-list whose items all contribute nothing may leave the replacement unset
			if want != "" {
				vNote("want", want)
				vFail("Replacement missing")
			}
			continue
		}
		if m.Replacement.GetValueOrDefault("") != want {
			vNote("got", m.Replacement.GetValueOrDefault(""))
			vNote("want", want)
			vFail("Replacement is not the concatenation of the with items evaluated on this match")
		}
	}
}

// captures reached through definitions (named pattern, inline subroutine) and through counted loops: the
// with-list names the capture directly, through a transform, twice, next to an undefined name
var c05DefBodies = []string{
	"e", "e e", "at least 1 e", "exactly 2 e", "between 1 and 2 e fewest", "maybe e any", "(at least 1 e) = y", "{any = x} = s", "{any = x} = s s",
	"at least 1 (any = x)", "exactly 2 (any = x)", "e or 'b'",
}
var c05DefWiths = []string{"'<' x '>'", "x x", "h", "'a' g x", "nope x 'k'", "k k", "r r"}

func VerifC05DefsCount() int { return len(c05DefBodies) * len(c05DefWiths) }

func VerifC05Defs(job int, T int) {
	sb, sw := c05Bodies, c05Withs
	c05Bodies, c05Withs = c05DefBodies, c05DefWiths
	defer func() { c05Bodies, c05Withs = sb, sw }()
	VerifC05(job, T, 0)
}
