package libvore

// C03 "every string variable of the match is a substring of m.Value": the generated capture family of C02
// (captures whose path can be abandoned) checked with C03's assertions on the real output alone.

func VerifC03CapturesCount() int { return len(c02Gen()) }

func VerifC03Captures(shape int, T int) {
	saved := c03Shapes
	c03Shapes = c02Gen()
	defer func() { c03Shapes = saved }()
	VerifC03(shape, T, 1, 0)
}
