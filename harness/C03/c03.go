package libvore

import (
	"github.com/jmeaster30/vore/libvore/engine"
)

// C03: every reported match is a faithful, ordered, located slice of the input.
// Assertions are on the real output alone (no reference matcher).

var c03Shapes = []string{
	"find all 'a'", "find all 'ab'", "find all any", "find all at least 1 any", "find all at least 1 any fewest 'a'",
	"find all whole line", "find all whole file", "find all whole word", "find all line start any", "find all any line end",
	"find all at least 1 not 'a'", "find all not in 'a', 'b'", "find all at least 1 not in 'a'", "find all at least 1 letter",
	"find all whitespace", "find all at least 1 whitespace any", "find all any = x", "find all (any = x any) = y", "find all at least 0 (any = x) 'a'",
	"find all @/a+/", "find all @/(a|b)c/", "find all @/.$/", "find all @/^./", "find all @/[^a]/", "find all @/\\s./",
	"find all at least 1 any named l", "find all at least 1 (any = x) named l 'a'", "find all between 1 and 2 letter named l",
	"replace all any with 'xy'", "replace all at least 1 letter with 'z'", "find skip 1 any", "find top 2 any", "find last 2 any",
	"find all {any maybe s} = s", "find all maybe 'a' any", "find all any or 'ab'", "find all caseless 'a' any",
	"find all any find all 'a'", "set p to pattern any any find all p",
	"find all line start at least 1 any fewest line end", "find all not line start any", "find all any not line end any",
}

func VerifC03Count() int { return len(c03Shapes) }

func c03Contains(hay string, needle string) bool {
	if len(needle) == 0 {
		return true
	}
	for i := 0; i+len(needle) <= len(hay); i++ {
		if hay[i:i+len(needle)] == needle {
			return true
		}
	}
	return false
}

func c03CheckVars(vars engine.ValueHashMap, value string) {
	for _, k := range vars.Keys() {
		v, _ := vars.Get(k)
		if v.ToGo() == nil {
			continue
		}
		if s, isStr := v.ToGo().(string); isStr {
			if !c03Contains(value, s) {
				vNote("var", k)
				vNote("varvalue", s)
				vFail("string variable is not a substring of the match value")
			}
		}
	}
}

// VerifC03 ascii=1: ASCII text and column claim checked; ascii=0: all 256 byte values, columns not checked.
func VerifC03(shape int, T int, ascii int, twin int) {
	src := c03Shapes[shape]
	v, err := Compile(src)
	if err != nil {
		vFail("harness: source does not compile: " + src)
	}
	text := vText("text", 0, T, ascii != 0)
	vNote("source", src)
	vNote("text", text)
	// an earlier run of the same program on another input of the same length (all line breaks) must leave
	// nothing behind: what is asserted below is about this input alone
	if len(text) > 0 {
		other := make([]byte, len(text))
		for i := range other {
			other[i] = '\n'
		}
		v.Run(string(other))
	}
	ms := v.Run(text)
	if twin != 0 && len(ms) > 0 {
		vFail("TWIN reached the assertions")
	}
	// per command sequence: MatchNumber restarts at 1 for each command (commands are concatenated)
	prevEnd := 0
	prevNum := 0
	for i := range ms {
		m := ms[i]
		vReach("match")
		if m.MatchNumber == 1 && i > 0 && prevNum >= 1 && m.Offset.Start < prevEnd {
			// next command's results begin
			prevEnd = 0
			prevNum = 0
		}
		if !(0 <= m.Offset.Start && m.Offset.Start < m.Offset.End && m.Offset.End <= len(text)) {
			vNote("got", vSpansStr(ms))
			vFail("offsets not within 0 <= start < end <= len")
		}
		if m.Value != text[m.Offset.Start:m.Offset.End] {
			vNote("got", vSpansStr(ms))
			vNote("value", m.Value)
			vFail("Value differs from text[Start:End]")
		}
		if m.Offset.Start < prevEnd {
			vNote("got", vSpansStr(ms))
			vFail("matches overlap or are out of order")
		}
		if prevNum != 0 && m.MatchNumber != prevNum+1 {
			vNote("got", vSpansStr(ms))
			vFail("MatchNumber not consecutive")
		}
		// line = 1 + newlines before the offset
		ls, le := 1, 1
		lastNLs, lastNLe := -1, -1
		for j := 0; j < m.Offset.Start; j++ {
			if text[j] == '\n' {
				ls++
				lastNLs = j
			}
		}
		for j := 0; j < m.Offset.End; j++ {
			if text[j] == '\n' {
				le++
				lastNLe = j
			}
		}
		if m.Line.Start != ls || m.Line.End != le {
			vNote("got", vSpansStr(ms))
			vNote("line", vItoa(m.Line.Start)+".."+vItoa(m.Line.End)+" want "+vItoa(ls)+".."+vItoa(le))
			vFail("Line is not 1 + number of newlines before the offset")
		}
		if ascii != 0 {
			cs := m.Offset.Start - lastNLs
			ce := m.Offset.End - lastNLe
			if m.Column.Start != cs || m.Column.End != ce {
				vNote("got", vSpansStr(ms))
				vNote("column", vItoa(m.Column.Start)+".."+vItoa(m.Column.End)+" want "+vItoa(cs)+".."+vItoa(ce))
				vFail("Column is not the 1-based byte column within the line")
			}
		}
		c03CheckVars(m.Variables, m.Value)
		prevEnd = m.Offset.End
		prevNum = m.MatchNumber
	}
}

// matches that are skipped (skip N) and span a line break: the position bookkeeping of the NEXT match
var c03SkipShapes = []string{
	"find skip 1 any any", "find skip 1 take 1 any any", "replace skip 1 any any with 'r'", "find skip 1 at least 1 not 'a'", "find skip 2 any whitespace",
	"find skip 1 any any any", "find last 1 any any", "find skip 1 take 2 (any any) = x", "find skip 1 whitespace any", "find top 2 any any",
}

func VerifC03SkipCount() int { return len(c03SkipShapes) }

func VerifC03Skip(shape int, T int) {
	saved := c03Shapes
	c03Shapes = c03SkipShapes
	defer func() { c03Shapes = saved }()
	VerifC03(shape, T, 1, 0)
}
