package libvore

// C03 on long inputs: many lines and many matches. Texts (u '\n')^k t with k symbolic over windows around
// powers of two; offsets, lines and columns have closed forms.

func VerifC03Long(c int, base int, span int) {
	k := base + vPick("lines beyond the base", span)
	text := ""
	for i := 0; i < k; i++ {
		text += "ab\n"
	}
	text += "x y"
	vNoteInt("lines", k+1)
	switch c {
	case 0:
		src := "find all 'x'"
		vNote("source", src)
		v, _ := Compile(src)
		ms := v.Run(text)
		if len(ms) != 1 || ms[0].Offset.Start != 3*k || ms[0].Offset.End != 3*k+1 || ms[0].Line.Start != k+1 || ms[0].Line.End != k+1 || ms[0].Column.Start != 1 || ms[0].Column.End != 2 || ms[0].MatchNumber != 1 {
			vFail("offset / line / column of a match far into the text are wrong")
		}
	case 1:
		src := "find all line start 'a'"
		vNote("source", src)
		v, _ := Compile(src)
		ms := v.Run(text)
		if len(ms) != k {
			vFail("wrong number of matches on a text with many lines")
		}
		for i, m := range ms {
			if m.Offset.Start != 3*i || m.Offset.End != 3*i+1 || m.Line.Start != i+1 || m.Column.Start != 1 || m.Column.End != 2 || m.MatchNumber != i+1 || m.Value != "a" {
				vNoteInt("match", i+1)
				vFail("offset / line / column / number of a match are wrong on a text with many lines")
			}
		}
	case 2:
		src := "find all 'b' any (any = v)"
		vNote("source", src)
		v, _ := Compile(src)
		ms := v.Run(text)
		if len(ms) != k {
			vFail("wrong number of matches on a text with many lines")
		}
		for i, m := range ms {
			wantV := "a"
			if i == k-1 {
				wantV = "x"
			}
			x, ok := m.Variables.Get("v")
			// the match spans a newline: it starts in line i+1 column 2 and ends in line i+2 column 2
			if m.Offset.Start != 3*i+1 || m.Offset.End != 3*i+4 || m.Line.Start != i+1 || m.Line.End != i+2 || m.Column.Start != 2 || m.Column.End != 2 || !ok || x.String().Value != wantV {
				vNoteInt("match", i+1)
				vFail("a match spanning a line break far into the text has wrong offsets / lines / columns / variables")
			}
		}
	case 3:
		src := "find last 3 'b'"
		vNote("source", src)
		v, _ := Compile(src)
		ms := v.Run(text)
		if len(ms) != 3 {
			vFail("last 3 does not return 3 matches on a text with many matches")
		}
		for j, m := range ms {
			i := k - 3 + j
			if m.Offset.Start != 3*i+1 || m.Line.Start != i+1 || m.Column.Start != 2 || m.MatchNumber != i+1 {
				vFail("last n: offsets / lines / numbers are wrong on a text with many matches")
			}
		}
	}
}
